// C26 -- deletable B-trees (btree_delete_set / btree_delete_multiset) behave as sorted sets.
//  (a) --mode seq : sequential stateful model test: histories of insert / erase(key) / erase(iterator&) / find / contains /
//      lower_bound / upper_bound / get_count / size / clear, compared with a std::multiset model after EVERY operation
//      (return value, size, full iteration, the tree's own check()), full oracle (bounds, hints, chunks) at the end.
//  (b) --mode conc: the C25 concurrent-insertion cases instantiated for the deletable trees, and mixed phases
//      (concurrent inserts -> quiescent erases -> concurrent inserts) under the cooperative scheduler; --mode dfs likewise.
#define BT_DELETE
#include "btree_common.h"

using namespace bt;

// ASan's per-allocation stack capture dominates the run time of these allocation-heavy harnesses; the access that trips
// ASan is still reported. For full allocation/free stacks replay with ASAN_OPTIONS=malloc_context_size=30.
extern "C" const char* __asan_default_options() {
    return "malloc_context_size=0";
}

static const char* TAG_CONC = "c26c";
static const char* TAG_SEQ = "c26s";

// ---- (a) sequential histories ------------------------------------------------------------------------------------------
// op kinds: I insert, E erase(key), X erase(iterator from find(key)), Y erase(iterator from lower_bound(key)), F find,
// C contains, L lower_bound, U upper_bound, N get_count, S size/empty, R clear, T full oracle (bounds/hints/chunks)
struct SeqOp {
    char kind;
    KeyV key;
};
static bool opHasKey(char k) {
    return k != 'S' && k != 'R' && k != 'T';
}
struct SeqCase {
    int structure = ST_DSET;
    int arity = 1, maxKeys = 3, search = S_LINEAR;
    bool hints = false;
    std::vector<KeyV> prefill;
    std::vector<SeqOp> ops;
    std::string text() const {
        std::ostringstream os;
        os << TAG_SEQ << " struct=" << structName(structure) << " arity=" << arity << " maxkeys=" << maxKeys
           << " search=" << (search == S_LINEAR ? "linear" : "binary") << " hints=" << (hints ? 1 : 0) << "\n";
        os << "prefill:";
        for (auto& k : prefill) os << " " << keyText(k, arity);
        os << "\nops:";
        for (auto& o : ops) {
            os << " " << o.kind;
            if (opHasKey(o.kind)) os << keyText(o.key, arity);
        }
        os << "\n";
        return os.str();
    }
    static SeqCase parse(const std::string& s) {
        SeqCase c;
        std::istringstream is(s);
        std::string line;
        bool first = true;
        while (std::getline(is, line)) {
            std::istringstream ls(line);
            std::string w;
            ls >> w;
            if (first) {
                Case::parseHeader(ls, c.structure, c.arity, c.maxKeys, c.search, c.hints);
                first = false;
            } else if (w == "prefill:") {
                std::string p;
                while (ls >> p) c.prefill.push_back(parseKey(p));
            } else if (w == "ops:") {
                std::string p;
                while (ls >> p) c.ops.push_back(SeqOp{p[0], opHasKey(p[0]) ? parseKey(p.substr(1)) : KeyV{0, 0, 0}});
            }
        }
        return c;
    }
};
struct SeqResult {
    bool ok = true, harnessError = false;
    std::string msg;
    long innerErases = 0, merges = 0, borrows = 0, rootShrinks = 0, insertsAfterErase = 0, eraseHits = 0, eraseMisses = 0,
         iterErases = 0, emptied = 0, clears = 0, maxSize = 0;
};

template <typename Tree, typename CFG, bool IsSet>
SeqResult runSeq(const SeqCase& c) {
    constexpr int N = CFG::arity;
    static_assert(Tree::max_keys_per_node == (std::size_t)effMaxKeys(CFG::arity, CFG::maxKeys), "block size does not give the intended node size");
    using K = Key<N>;
    using Hints = typename Tree::operation_hints;
    SeqResult res;
    auto holder = std::make_unique<Probe<Tree>>();
    Probe<Tree>& t = *holder;
    std::multiset<K> model;
    Hints h;
    std::size_t opNo = 0;
    auto fail = [&](const std::string& m) {
        if (res.ok) {
            res.ok = false;
            res.msg = "op #" + std::to_string(opNo) + ": " + m;
        }
    };
    for (auto& kv : c.prefill) {
        const K k = toKey<N>(kv);
        const bool exp = IsSet ? model.count(k) == 0 : true;
        const bool got = c.hints ? t.insert(k, h) : t.insert(k);
        if (got != exp) {
            fail("prefill: insert(" + keyText(k) + ") returned " + (got ? "true" : "false"));
            return res;
        }
        if (exp) model.insert(k);
    }
    {
        std::string m = fullCheck<Tree, N, IsSet>(t, model, {}, 1);
        if (!m.empty()) {
            fail("after the prefill: " + m);
            return res;
        }
    }
    // lock-step walk of a tree iterator and a model iterator
    auto sync = [&](typename Tree::iterator it, typename std::multiset<K>::const_iterator mit, std::size_t steps) -> bool {
        const auto e = t.end();
        for (std::size_t s = 0; s <= steps; s++) {
            const bool te = (it == e), me = (mit == model.end());
            if (te != me) return false;
            if (te) return true;
            if (!(*it == *mit)) return false;
            ++it;
            ++mit;
        }
        return true;
    };
    // after erase(iterator&) of one instance of kv (already removed from the model): the iterator must refer to the
    // successor of the erased element, i.e. the rest of the iteration from it is the model's suffix that starts inside
    // [lower_bound(kv), upper_bound(kv)] (for a set: exactly at lower_bound(kv))
    auto verifyIter = [&](typename Tree::iterator it, const K& kv) -> std::string {
        std::vector<K> rest;
        const auto e = t.end();
        while (it != e) {
            if (rest.size() > model.size()) return "iterating on from the iterator left by erase(iterator&) does not reach end()";
            rest.push_back(*it);
            ++it;
        }
        if (rest.size() > model.size()) return "the iterator left by erase(iterator&) yields more elements than the tree holds";
        const std::size_t start = model.size() - rest.size();
        const std::size_t lb = (std::size_t)std::distance(model.begin(), model.lower_bound(kv));
        const std::size_t ub = (std::size_t)std::distance(model.begin(), model.upper_bound(kv));
        if (start < lb || start > ub)
            return "erase(iterator&) left the iterator at sequence position " + std::to_string(start) + ", the successor of the erased " + keyText(kv) +
                   " is at position " + std::to_string(lb) + (ub != lb ? ".." + std::to_string(ub) : "");
        auto mit = model.begin();
        std::advance(mit, start);
        for (std::size_t i = 0; i < rest.size(); i++, ++mit)
            if (!(rest[i] == *mit)) return "the elements after the iterator left by erase(iterator&) differ from the model";
        return "";
    };
    bool erasedBefore = false;
    std::vector<int> shape0, shape1;
    for (const SeqOp& o : c.ops) {
        opNo++;
        const K k = toKey<N>(o.key);
        const std::string ks = keyText(k);
        switch (o.kind) {
            case 'I': {
                const bool exp = IsSet ? model.count(k) == 0 : true;
                const bool got = c.hints ? t.insert(k, h) : t.insert(k);
                if (got != exp) fail("insert(" + ks + ") returned " + (got ? "true" : "false") + ", the model says " + (exp ? "true" : "false"));
                if (exp) {
                    model.insert(k);
                    if (erasedBefore) res.insertsAfterErase++;
                }
                break;
            }
            case 'E':
            case 'X':
            case 'Y':
                // btree_delete_multiset::erase / get_count cannot be instantiated (the iterator only befriends the isSet=true
                // instantiation, BTreeDelete.h:908), so erase histories exist for the set only
                if constexpr (!IsSet) {
                    res.harnessError = true;
                    fail("harness: erase is not available for btree_delete_multiset");
                } else {
                const bool inner = t.innerHas(k);
                const std::size_t nodes0 = t.getNumNodes(), depth0 = t.getDepth();
                t.shape(shape0);
                std::size_t removed = 0;
                if (o.kind == 'E') {
                    const std::size_t exp = model.count(k);
                    const std::size_t got = t.erase(k);
                    if (got != exp) fail("erase(" + ks + ") returned " + std::to_string(got) + ", the model holds " + std::to_string(exp));
                    model.erase(k);
                    removed = exp;
                    if (inner && exp) res.innerErases++;
                } else if (o.kind == 'X') {
                    auto it = c.hints ? t.find(k, h) : t.find(k);
                    if (it == t.end()) {
                        if (model.count(k)) fail("find(" + ks + ") = end() for a stored key");
                    } else if (!model.count(k) || !(*it == k)) {
                        fail("find(" + ks + ") returns an element although the model does not hold the key");
                    } else {
                        t.erase(it);
                        model.erase(model.find(k));
                        removed = 1;
                        res.iterErases++;
                        if (inner) res.innerErases++;
                        std::string m = verifyIter(it, k);
                        if (!m.empty()) fail("erase(find(" + ks + ")): " + m);
                    }
                } else {
                    auto it = t.lower_bound(k);
                    auto mit = model.lower_bound(k);
                    if (it == t.end()) {
                        if (mit != model.end()) fail("lower_bound(" + ks + ") = end() although the model has a bound");
                    } else if (mit == model.end() || !(*it == *mit)) {
                        fail("lower_bound(" + ks + ") does not point at the model's lower bound");
                    } else {
                        const K kv = *it;
                        const bool innerKv = t.innerHas(kv);
                        t.erase(it);
                        model.erase(mit);
                        removed = 1;
                        res.iterErases++;
                        if (innerKv) res.innerErases++;
                        std::string m = verifyIter(it, kv);
                        if (!m.empty()) fail("erase(lower_bound(" + ks + ")): " + m);
                    }
                }
                h.clear();   // erase may delete nodes: cached hint nodes must be dropped (operation_hints::clear)
                if (removed) {
                    erasedBefore = true;
                    res.eraseHits++;
                    if (res.ok) {
                        const std::size_t nodes1 = t.getNumNodes(), depth1 = t.getDepth();
                        t.shape(shape1);
                        if (depth1 < depth0) res.rootShrinks++;
                        if (nodes1 + (depth0 - depth1) < nodes0) res.merges++;
                        if (nodes1 == nodes0) {
                            int changed = 0;
                            for (std::size_t i = 0; i < shape0.size() && i < shape1.size(); i++)
                                if (shape0[i] != shape1[i]) changed++;
                            if (changed >= 2) res.borrows++;
                        }
                        if (model.empty()) res.emptied++;
                    }
                } else
                    res.eraseMisses++;
                }
                break;
            case 'F': {
                auto it = c.hints ? t.find(k, h) : t.find(k);
                if (model.count(k) ? (it == t.end() || !(*it == k)) : (it != t.end())) fail("find(" + ks + ") disagrees with the model");
                break;
            }
            case 'C': {
                const bool got = c.hints ? t.contains(k, h) : t.contains(k);
                if (got != (model.count(k) != 0)) fail("contains(" + ks + ") = " + (got ? "true" : "false") + " disagrees with the model");
                break;
            }
            case 'L': {
                auto it = c.hints ? t.lower_bound(k, h) : t.lower_bound(k);
                if (!sync(it, model.lower_bound(k), model.count(k) + 2)) fail("lower_bound(" + ks + ") does not point at the model's lower bound");
                break;
            }
            case 'U': {
                auto it = c.hints ? t.upper_bound(k, h) : t.upper_bound(k);
                if (!sync(it, model.upper_bound(k), 2)) fail("upper_bound(" + ks + ") does not point at the model's upper bound");
                break;
            }
            case 'N':
                if constexpr (!IsSet) {
                    res.harnessError = true;
                    fail("harness: get_count is not available for btree_delete_multiset");
                } else {
                    const std::size_t got = t.get_count(k);
                    if (got != model.count(k)) fail("get_count(" + ks + ") = " + std::to_string(got) + ", the model holds " + std::to_string(model.count(k)));
                }
                break;
            case 'S': break;   // size/empty are compared after every operation anyway
            case 'R': {
                t.clear();
                model.clear();
                h.clear();
                res.clears++;
                break;
            }
            case 'T': {
                std::string m = fullCheck<Tree, N, IsSet>(t, model, {}, 2);
                if (!m.empty()) fail(m);
                break;
            }
            default: res.harnessError = true; fail("harness: unknown op kind");
        }
        if (!res.ok) return res;
        res.maxSize = std::max<long>(res.maxSize, (long)model.size());
        std::string m = fullCheck<Tree, N, IsSet>(t, model, {}, 0);
        if (!m.empty()) {
            fail(std::string("after ") + o.kind + (opHasKey(o.kind) ? ks : std::string()) + ": " + m);
            return res;
        }
    }
    opNo++;
    std::string m = fullCheck<Tree, N, IsSet>(t, model, {}, 2);
    if (!m.empty()) fail("at the end of the history: " + m);
    return res;
}

struct SeqVisitor {
    const SeqCase& c;
    SeqResult res;
    template <typename CFG>
    void visit() {
        if (c.structure == ST_DSET)
            res = runSeq<typename CFG::DSet, CFG, true>(c);
        else if (c.structure == ST_DMULTI)
            res = runSeq<typename CFG::DMulti, CFG, false>(c);
        else {
            res.ok = false;
            res.harnessError = true;
            res.msg = "harness: sequential histories exist for the deletable trees only";
        }
    }
};
static SeqResult runSeqCase(const SeqCase& c) {
    SeqVisitor v{c, SeqResult{}};
    if (!forConfig(c.arity, c.maxKeys, c.search, v)) {
        v.res.ok = false;
        v.res.harnessError = true;
        v.res.msg = "harness: no instantiated configuration for arity/maxkeys/search of this case";
    }
    return v.res;
}

static void accountSeq(hc::Stats& st, const SeqCase& c, const SeqResult& r) {
    st.evals++;
    st.extra["seq_operations"] += c.ops.size();
    st.cls(std::string("seq:struct=") + structName(c.structure));
    st.cls("seq:maxkeys=" + (c.maxKeys ? std::to_string(c.maxKeys) : std::string("default")));
    st.cls(c.hints ? "seq:hints=on" : "seq:hints=off");
    if (r.innerErases) st.cls("seq:erase_of_inner_node_key");
    if (r.merges) st.cls("seq:merge");
    if (r.borrows) st.cls("seq:borrow_from_sibling");
    if (r.rootShrinks) st.cls("seq:root_shrink");
    if (r.emptied) st.cls("seq:erased_to_empty");
    if (r.insertsAfterErase) st.cls("seq:insert_after_erase");
    if (r.iterErases) st.cls("seq:erase_by_iterator");
    if (r.clears) st.cls("seq:clear");
    if (r.innerErases && (r.merges || r.borrows || r.rootShrinks) && r.insertsAfterErase) {
        st.nt(c.text());
        if (r.rootShrinks && r.borrows && c.ops.size() <= 40) st.sample(c.text());
    } else
        st.cls("seq:trivial");
}

static SeqCase genSeqCase() {
    SeqCase c;
    // small nodes twice as often as the default block size: erase reaches inner nodes, merges and root shrinks there
    std::vector<CfgId> cfgs;
    for (auto& x : allConfigs())
        for (int r = 0; r < (x.maxKeys == 0 ? 1 : x.maxKeys == 8 ? 2 : 3); r++) cfgs.push_back(x);
    const CfgId cfg = cfgs[*hc::R<std::size_t>(0, cfgs.size())];
    c.arity = cfg.arity;
    c.maxKeys = cfg.maxKeys;
    c.search = cfg.search;
    // the multiset variant has no usable erase (see runSeq); its histories are insert / query / clear only
    c.structure = *rc::gen::weightedElement<int>({{9, ST_DSET}, {1, ST_DMULTI}});
    const bool isSet = c.structure == ST_DSET;
    c.hints = *hc::R(0, 2) == 1;
    const int mk = effMaxKeys(cfg.arity, cfg.maxKeys);
    const Domain d = genDomain(c.arity, mk);
    const int pf = *rc::gen::element(0, mk, 2 * mk + 1, 3 * mk, 4 * mk + 2, 6 * mk);
    const int npre = std::min(pf, 180);
    for (int i = 0; i < npre; i++) c.prefill.push_back(genKey(d));
    const int pmode = *hc::R(0, 3);
    if (pmode == 1) std::sort(c.prefill.begin(), c.prefill.end(), keyLess);
    if (pmode == 2) std::sort(c.prefill.begin(), c.prefill.end(), [](const KeyV& a, const KeyV& b) { return keyLess(b, a); });
    const int nops = *hc::R(8, 61);
    std::vector<KeyV> content = c.prefill;   // keys inserted so far: most erases aim at them
    for (int i = 0; i < nops; i++) {
        char kind = *rc::gen::weightedElement<char>(
                {{30, 'I'}, {26, 'E'}, {7, 'X'}, {6, 'Y'}, {4, 'F'}, {3, 'C'}, {5, 'L'}, {5, 'U'}, {3, 'N'}, {1, 'S'}, {1, 'T'}});
        if (*hc::R(0, 500) == 0) kind = 'R';
        if (!isSet && (kind == 'E' || kind == 'X' || kind == 'Y' || kind == 'N')) kind = kind == 'E' ? 'I' : kind == 'N' ? 'C' : 'L';
        KeyV key{0, 0, 0};
        if (opHasKey(kind)) {
            if (kind != 'I' && !content.empty() && *hc::R(0, 4) != 0)
                key = content[*hc::R<std::size_t>(0, content.size())];
            else
                key = genKey(d);
            if (kind == 'I') content.push_back(key);
        }
        c.ops.push_back(SeqOp{kind, key});
    }
    // drain: erase the tree's content key by key (ascending / descending / generated order) down to (nearly) nothing,
    // which walks through merges, borrows and root shrinks; then insert again
    if (*hc::R(0, 3) == 0 && isSet) {
        std::vector<KeyV> keys = c.prefill;
        for (auto& o : c.ops)
            if (o.kind == 'I') keys.push_back(o.key);
        std::sort(keys.begin(), keys.end(), keyLess);
        keys.erase(std::unique(keys.begin(), keys.end()), keys.end());
        if (keys.size() > 120) keys.resize(120);
        const int order = *hc::R(0, 3);
        if (order == 1) std::reverse(keys.begin(), keys.end());
        if (order == 2 && !keys.empty())
            for (std::size_t i = keys.size() - 1; i > 0; i--) std::swap(keys[i], keys[*hc::R<std::size_t>(0, i + 1)]);
        const char ek = *rc::gen::element('E', 'E', 'X', 'Y');
        for (auto& k : keys) c.ops.push_back(SeqOp{ek, k});
        const int again = *hc::R(0, 6);
        for (int i = 0; i < again; i++) c.ops.push_back(SeqOp{'I', genKey(d)});
    }
    return c;
}

// ---- (b) concurrent cases ----------------------------------------------------------------------------------------------
static std::vector<std::vector<KeyV>> genThreadLists(const Domain& d, int mk) {
    const int n = *rc::gen::weightedElement<int>({{5, 2}, {4, 3}, {3, 4}, {1, 5}, {1, 6}});
    const int maxOps = n <= 3 ? 5 : 3;
    const int mode = *hc::R(0, 5);
    std::vector<std::vector<KeyV>> lists(n);
    auto nops = [&] { return *hc::R(1, maxOps + 1); };
    if (mode == 4) {   // hammer one leaf
        KeyV c = genKey(d);
        const int w = *rc::gen::element(1, 2, mk);
        for (auto& l : lists) {
            const int k = nops();
            for (int i = 0; i < k; i++) {
                KeyV x = c;
                const std::int64_t v = (std::int64_t)x[d.arity - 1] + *hc::R(-w, w + 1);
                x[d.arity - 1] = (std::int32_t)std::max<std::int64_t>(INT32_MIN, std::min<std::int64_t>(INT32_MAX, v));
                l.push_back(x);
            }
        }
        return lists;
    }
    for (auto& l : lists) {
        const int k = nops();
        for (int i = 0; i < k; i++) l.push_back(genKey(d));
        if (mode == 2) std::sort(l.begin(), l.end(), keyLess);
        if (mode == 3) std::sort(l.begin(), l.end(), [](const KeyV& a, const KeyV& b) { return keyLess(b, a); });
    }
    return lists;
}

static Case genConcCase() {
    Case c;
    c.tag = TAG_CONC;
    const auto& cfgs = allConfigs();
    const CfgId cfg = cfgs[*hc::R<std::size_t>(0, cfgs.size())];
    c.arity = cfg.arity;
    c.maxKeys = cfg.maxKeys;
    c.search = cfg.search;
    c.structure = *rc::gen::weightedElement<int>({{4, ST_DSET}, {1, ST_DMULTI}});
    c.hints = *hc::R(0, 2) == 1;
    const int mk = effMaxKeys(cfg.arity, cfg.maxKeys);
    const Domain d = genDomain(c.arity, mk);
    const int pf = *rc::gen::element(0, 1, mk - 1, mk, mk + 1, 2 * mk, 3 * mk + 1, 5 * mk);
    const int npre = std::min(pf, 140);
    for (int i = 0; i < npre; i++) c.prefill.push_back(genKey(d));
    if (*hc::R(0, 2) == 1) std::sort(c.prefill.begin(), c.prefill.end(), keyLess);
    Phase p1;
    p1.threads = genThreadLists(d, mk);
    c.phases.push_back(p1);
    if (*hc::R(0, 5) < 3 && c.structure == ST_DSET) {
        // mixed phases, as subsumption uses the tree: concurrent inserts -> quiescent erases -> concurrent inserts
        Phase pe;
        pe.erase = true;
        const int ne = *hc::R(1, 25);
        const bool fromContent = *hc::R(0, 2) == 1;
        std::vector<KeyV> content = c.prefill;
        for (auto& l : p1.threads) content.insert(content.end(), l.begin(), l.end());
        for (int i = 0; i < ne; i++) pe.erases.push_back(fromContent ? content[*hc::R<std::size_t>(0, content.size())] : genKey(d));
        c.phases.push_back(pe);
        Phase p3;
        p3.threads = genThreadLists(d, mk);
        c.phases.push_back(p3);
    }
    const int nq = *hc::R(0, 5);
    for (int i = 0; i < nq; i++) c.queries.push_back(genKey(d));
    c.sched = *rc::gen::container<std::vector<std::uint8_t>>(rc::gen::arbitrary<std::uint8_t>());
    c.tail = *hc::R<std::uint64_t>(1, 1u << 30);
    return c;
}

int main(int argc, char** argv) {
    hc::Args args = hc::parseArgs(argc, argv);
    hc::Stats st;
    hc::Pending pending(args.pending);
    if (!args.replay.empty()) {
        const std::string text = hc::readFile(args.replay);
        if (text.rfind(TAG_SEQ, 0) == 0) {
            SeqResult r = runSeqCase(SeqCase::parse(text));
            if (!r.ok) {
                std::cout << "FAIL: " << r.msg << "\n";
                return 1;
            }
            std::cout << "PASS\n";
            return 0;
        }
        Case c = Case::parse(text);
        vsched::ByteSource src(c.sched, c.tail);
        Result r = runCase(c, &src);
        if (!r.ok) {
            std::cout << "FAIL: " << r.msg << "\n";
            return 1;
        }
        std::cout << (r.inconclusive ? "INCONCLUSIVE\n" : "PASS\n");
        return 0;
    }
    if (args.mode == "dfs") return dfsMain(args, st, pending, TAG_CONC, (int)args.num("structure", ST_DSET));
    hc::setRcParams(args);
    bool ok;
    if (args.mode == "seq") {
        SeqCase lastFail;
        std::string lastMsg;
        ok = rc::check("deletable B-trees agree with a sorted-set model after every operation", [&] {
            SeqCase c = genSeqCase();
            pending.set(c.text());
            SeqResult r = runSeqCase(c);
            pending.clear();
            accountSeq(st, c, r);
            if (!r.ok) {
                lastFail = c;
                lastMsg = r.msg;
            }
            RC_ASSERT(r.ok);
        });
        if (!ok) st.violations.push_back({lastFail.text(), lastMsg});
    } else {
        Case lastFail;
        std::string lastMsg;
        std::uint64_t counter = 0;
        ok = rc::check("deletable B-trees: concurrent insertions (and quiescent erases in between) agree with a sorted-set model", [&] {
            Case c = genConcCase();
            pending.set(c.text());
            vsched::ByteSource src(c.sched, c.tail);
            Result r = runCase(c, &src);
            if (r.ok && !r.inconclusive && (++counter % 256) == 0) {
                vsched::ByteSource src2(c.sched, c.tail);
                Result r2 = runCase(c, &src2);
                if (r2.sig != r.sig || r2.ok != r.ok)
                    st.inconclusive["nondeterministic_rerun"]++;
                else
                    st.cls("determinism_recheck_ok");
            }
            pending.clear();
            accountConc(st, c, r);
            if (!r.ok) {
                lastFail = c;
                lastMsg = r.msg;
            }
            RC_ASSERT(r.ok);
        });
        if (!ok) st.violations.push_back({lastFail.text(), lastMsg});
    }
    if (!args.out.empty()) st.write(args.out);
    return ok ? 0 : 1;
}
