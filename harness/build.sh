#!/bin/sh
# build.sh [name...] : (re)build engine-H harnesses from /repo's current headers (ASan+UBSan, asserts on, hooks on).
# Rebuilds a target only if its sources or any souffle header changed (content hash).
set -e
here="$(cd "$(dirname "$0")" && pwd)"
REPO="${VERIF_REPO:-/repo}"
out="$here/../build/harness"
mkdir -p "$out"
hdrhash=$(cat $(find "$REPO/src/include" -name '*.h' | sort) "$here"/*.h | sha1sum | cut -c1-16)
targets="$*"
[ -n "$targets" ] || targets=$(cd "$here" && ls c*.cpp | sed 's/\.cpp$//')
pids=""
for t in $targets; do
  (
    h=$(cat "$here/$t.cpp" | sha1sum | cut -c1-16)
    stamp="$out/$t.stamp"
    if [ -x "$out/$t" ] && [ "$(cat "$stamp" 2>/dev/null)" = "$hdrhash-$h-$REPO" ]; then exit 0; fi
    extra=""
    [ -f "$here/$t.flags" ] && extra=$(cat "$here/$t.flags")
    if g++ -std=c++17 -g -O1 -fopenmp -fsanitize=address,undefined -fno-sanitize-recover=undefined -fno-omit-frame-pointer \
        -DSOUFFLE_VERIF -Wno-deprecated-declarations -I"$REPO/src/include" -I"$here" $extra "$here/$t.cpp" -o "$out/$t.tmp" -lrapidcheck -lpthread \
        > "$out/$t.log" 2>&1; then
      mv "$out/$t.tmp" "$out/$t"; echo "$hdrhash-$h-$REPO" > "$stamp"; echo "built $t"
    else
      echo "BUILD FAILED: $t (see $out/$t.log)"; tail -30 "$out/$t.log"; exit 1
    fi
  ) &
  pids="$pids $!"
done
rc=0
for p in $pids; do wait $p || rc=1; done
exit $rc
