// C25 -- B-tree sets (btree_set / btree_multiset) behave as sorted sets under concurrent insertion.
// Concurrent insertion histories run under the cooperative scheduler (hook points: every lock-class operation and the
// key-shift loop of btree::insert); the quiescent tree is then compared with a std::multiset model (btree_common.h).
#define BT_PLAIN
#include "btree_common.h"

using namespace bt;

// ASan's per-allocation stack capture dominates the run time of these allocation-heavy harnesses; the access that trips
// ASan is still reported. For full allocation/free stacks replay with ASAN_OPTIONS=malloc_context_size=30.
extern "C" const char* __asan_default_options() {
    return "malloc_context_size=0";
}

static const char* TAG = "c25";

// ---- generator ---------------------------------------------------------------------------------------------------------
static std::vector<std::vector<KeyV>> genThreadLists(const Domain& d, int mk) {
    const int n = *rc::gen::weightedElement<int>({{5, 2}, {4, 3}, {3, 4}, {1, 5}, {1, 6}, {1, 8}});
    const int maxOps = n <= 3 ? 6 : n <= 4 ? 4 : 3;
    const int mode = *hc::R(0, 7);
    std::vector<std::vector<KeyV>> lists(n);
    auto nops = [&] { return *hc::R(1, maxOps + 1); };
    switch (mode) {
        case 0:    // random
        case 1: {
            for (auto& l : lists) {
                const int k = nops();
                for (int i = 0; i < k; i++) l.push_back(genKey(d));
            }
            break;
        }
        case 2:    // every thread ascending
        case 3: {  // every thread descending
            for (auto& l : lists) {
                const int k = nops();
                for (int i = 0; i < k; i++) l.push_back(genKey(d));
                std::sort(l.begin(), l.end(), keyLess);
                if (mode == 3) std::reverse(l.begin(), l.end());
            }
            break;
        }
        case 4: {  // all threads hammer one leaf: keys from a narrow window around one centre
            KeyV c = genKey(d);
            const int w = *rc::gen::element(1, 2, mk);
            for (auto& l : lists) {
                const int k = nops();
                for (int i = 0; i < k; i++) {
                    KeyV x = c;
                    const std::int64_t v = (std::int64_t)x[d.arity - 1] + *hc::R(-w, w + 1);
                    x[d.arity - 1] = (std::int32_t)std::max<std::int64_t>(INT32_MIN, std::min<std::int64_t>(INT32_MAX, v));
                    l.push_back(x);
                }
            }
            break;
        }
        case 5: {  // interleaved stripes: thread i inserts base+i, base+i+n, ...
            KeyV c = genKey(d);
            const int k = nops();
            const bool down = *hc::R(0, 2) == 1;
            for (int t = 0; t < n; t++)
                for (int i = 0; i < k; i++) {
                    KeyV x = c;
                    const std::int64_t off = (std::int64_t)t + (std::int64_t)i * n;
                    const std::int64_t v = (std::int64_t)x[d.arity - 1] + (down ? -off : off);
                    x[d.arity - 1] = (std::int32_t)std::max<std::int64_t>(INT32_MIN, std::min<std::int64_t>(INT32_MAX, v));
                    lists[t].push_back(x);
                }
            break;
        }
        default: {  // identical lists (maximal duplication across threads)
            std::vector<KeyV> l;
            const int k = nops();
            for (int i = 0; i < k; i++) l.push_back(genKey(d));
            for (auto& x : lists) x = l;
        }
    }
    return lists;
}

static Case genCase() {
    Case c;
    c.tag = TAG;
    const auto& cfgs = allConfigs();
    const CfgId cfg = cfgs[*hc::R<std::size_t>(0, cfgs.size())];
    c.arity = cfg.arity;
    c.maxKeys = cfg.maxKeys;
    c.search = cfg.search;
    c.structure = *rc::gen::weightedElement<int>({{3, ST_SET}, {2, ST_MULTI}});
    c.hints = *hc::R(0, 2) == 1;
    const int mk = effMaxKeys(cfg.arity, cfg.maxKeys);
    const Domain d = genDomain(c.arity, mk);
    // pre-fill: nothing, a nearly full / full root leaf, or a tree of depth 2-3 -- so that the concurrent inserts split
    const int pf = *rc::gen::element(0, 1, mk - 1, mk, mk, mk + 1, 2 * mk, 2 * mk + 1, 3 * mk + 1, 5 * mk);
    const int npre = std::min(pf, 140);
    for (int i = 0; i < npre; i++) c.prefill.push_back(genKey(d));
    const int pmode = *hc::R(0, 3);
    if (pmode == 1) std::sort(c.prefill.begin(), c.prefill.end(), keyLess);
    if (pmode == 2) std::sort(c.prefill.begin(), c.prefill.end(), [](const KeyV& a, const KeyV& b) { return keyLess(b, a); });
    Phase ph;
    ph.threads = genThreadLists(d, mk);
    c.phases.push_back(ph);
    const int nq = *hc::R(0, 5);
    for (int i = 0; i < nq; i++) c.queries.push_back(genKey(d));
    c.sched = *rc::gen::container<std::vector<std::uint8_t>>(rc::gen::arbitrary<std::uint8_t>());
    c.tail = *hc::R<std::uint64_t>(1, 1u << 30);
    return c;
}

int main(int argc, char** argv) {
    hc::Args args = hc::parseArgs(argc, argv);
    hc::Stats st;
    hc::Pending pending(args.pending);
    if (!args.replay.empty()) {
        Case c = Case::parse(hc::readFile(args.replay));
        vsched::ByteSource src(c.sched, c.tail);
        Result r = runCase(c, &src);
        if (!r.ok) {
            std::cout << "FAIL: " << r.msg << "\n";
            return 1;
        }
        std::cout << (r.inconclusive ? "INCONCLUSIVE\n" : "PASS\n");
        return 0;
    }
    if (args.mode == "dfs") return dfsMain(args, st, pending, TAG, (int)args.num("structure", ST_SET));
    hc::setRcParams(args);
    Case lastFail;
    std::string lastMsg;
    std::uint64_t counter = 0;
    bool ok = rc::check("B-tree sets behave as sorted sets under concurrent insertion", [&] {
        Case c = genCase();
        pending.set(c.text());
        vsched::ByteSource src(c.sched, c.tail);
        Result r = runCase(c, &src);
        if (r.ok && !r.inconclusive && (++counter % 256) == 0) {
            // determinism re-check: the same case and schedule must give the same observable history
            vsched::ByteSource src2(c.sched, c.tail);
            Result r2 = runCase(c, &src2);
            if (r2.sig != r.sig || r2.ok != r.ok)
                st.inconclusive["nondeterministic_rerun"]++;
            else
                st.cls("determinism_recheck_ok");
        }
        pending.clear();
        accountConc(st, c, r);
        if (!r.ok) {
            lastFail = c;
            lastMsg = r.msg;
        }
        RC_ASSERT(r.ok);
    });
    if (!ok) st.violations.push_back({lastFail.text(), lastMsg});
    if (!args.out.empty()) st.write(args.out);
    return ok ? 0 : 1;
}
