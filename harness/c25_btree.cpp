// C25 -- B-tree sets (btree_set / btree_multiset) behave as sorted sets under concurrent insertion.
// Concurrent insertion histories run under the cooperative scheduler (hook points: every lock-class operation and the
// key-shift loop of btree::insert); the quiescent tree is then compared with a std::multiset model (btree_common.h).
#define BT_PLAIN
#include "btree_common.h"

using namespace bt;

// ASan's per-allocation stack capture dominates the run time of these allocation-heavy harnesses; the access that trips
// ASan is still reported. For full allocation/free stacks replay with ASAN_OPTIONS=malloc_context_size=30.
extern "C" const char* __asan_default_options() {
    return "malloc_context_size=0";
}

static const char* TAG = "c25";

// ---- coarse ("segment") schedules + hook observer ------------------------------------------------------------------------
// A case may carry, in front of the byte schedule, a list of segments `tid:cond`: thread tid runs (and nobody else) until
//   <n>  it has passed n hook points,
//   o    its current insert call has returned (checked at its next hook point),
//   *    it has finished its list,
//   w    it stands at a hold-and-wait point: a lock operation on a lock it does not hold while it holds the write lock
//        of at least one node (btree::insert "lock parents": leaf locked, about to lock the parent / grand parent / root
//        lock; rebalance: about to try-lock the left sibling),
// or until it cannot continue (done, or spinning on a taken lock); then the next segment starts. A segment whose thread
// is done or spinning when its turn comes is skipped. Once all segments are used up the byte schedule + tail take over.
// This makes schedules cheap to express in which a writer stays descheduled exactly in front of a lock acquisition while
// other writers complete whole insertions (each of which takes dozens of hook points).
//
// Lock ownership is reconstructed from the hooks alone: every OptimisticReadWriteLock operation announces itself (P_LOCK,
// obj = the lock) before it executes, and between two consecutive hooks of one thread exactly that one operation was
// executed by it; its effect is read off is_write_locked() at the thread's next hook (or when its insert returns).
struct Seg {
    int tid = 0;
    char kind = 'n';   // n, o, *, w
    int n = 0;
};
static std::vector<Seg> parseSegs(const std::string& s) {
    std::vector<Seg> v;
    std::istringstream is(s);
    std::string p;
    while (is >> p) {
        auto c = p.find(':');
        if (c == std::string::npos) continue;
        Seg g;
        g.tid = std::atoi(p.substr(0, c).c_str());
        const std::string k = p.substr(c + 1);
        if (k == "o" || k == "*" || k == "w")
            g.kind = k[0];
        else {
            g.kind = 'n';
            g.n = std::max(1, std::atoi(k.c_str()));
        }
        v.push_back(g);
    }
    return v;
}
static std::string segText(const std::vector<Seg>& v) {
    std::string s;
    for (auto& g : v) s += (s.empty() ? "" : " ") + std::to_string(g.tid) + ":" + (g.kind == 'n' ? std::to_string(g.n) : std::string(1, g.kind));
    return s;
}

struct SegSource : vsched::ChoiceSource, PhaseObserver {
    using Lock = souffle::OptimisticReadWriteLock;
    std::vector<Seg> segs;
    vsched::ByteSource bytes;
    // segment interpreter
    std::size_t si = 0;
    bool started = false;
    int count = 0;
    std::size_t ops0 = 0;
    // observer state (per phase)
    int n = 0;
    std::map<const void*, int> owner;        // write-locked lock -> thread
    std::vector<const Lock*> pend;           // lock of the thread's announced, not yet settled operation
    std::vector<const void*> prevObj;        // lock of the thread's previous P_LOCK hook
    std::vector<char> prevAcquire;           // ... which the thread did not hold at that hook
    std::vector<char> relAfterAcq;           // the thread released a lock right after acquiring it, holding another one
    std::vector<int> holds, switches, maxHeld;   // per thread: locks held; per current insert: parent switches, most locks held at once
    std::set<const void*> seen;              // locks announced by any thread in this phase
    std::vector<char> atHW;
    std::vector<std::size_t> opsDone;
    int curTid = -1;
    // statistics of the whole case
    long hwPoints = 0, hwParks = 0, holdAndSpin = 0, parentSwitch = 0, parentSwitchTwice = 0, mostHeld = 0, segsUsed = 0;

    SegSource(const Case& c) : segs(parseSegs(c.segments)), bytes(c.sched, c.tail) {}

    void phaseBegin(vsched::Scheduler& sch, int nthreads) override {
        n = nthreads;
        owner.clear();
        pend.assign(n, nullptr);
        prevObj.assign(n, nullptr);
        prevAcquire.assign(n, 0);
        relAfterAcq.assign(n, 0);
        holds.assign(n, 0);
        switches.assign(n, 0);
        maxHeld.assign(n, 0);
        seen.clear();
        atHW.assign(n, 0);
        opsDone.assign(n, 0);
        sch.onPoint = [this](int tid, int kind, const void* obj) { point(tid, kind, obj); };
    }
    void settle(int t) {
        const Lock* x = pend[t];
        if (!x) return;
        pend[t] = nullptr;
        auto it = owner.find(x);
        if (x->is_write_locked()) {
            if (it == owner.end()) {
                owner[x] = t;
                holds[t]++;
            }
        } else if (it != owner.end()) {
            holds[it->second]--;
            owner.erase(it);
        }
    }
    void opDone(int tid, std::size_t) override {
        if (tid >= n) return;
        settle(tid);
        opsDone[tid]++;
        mostHeld = std::max<long>(mostHeld, maxHeld[tid]);
        if (switches[tid] >= 2) parentSwitchTwice++;
        switches[tid] = 0;
        maxHeld[tid] = 0;
        prevObj[tid] = nullptr;
        relAfterAcq[tid] = 0;
    }
    void point(int tid, int kind, const void* obj) {
        if (tid >= n) return;
        curTid = tid;
        atHW[tid] = 0;
        if (kind == souffle::verif::P_SPIN) {   // the announced operation is still waiting: not settled yet
            if (holds[tid] > 0) holdAndSpin++;
            return;
        }
        settle(tid);
        maxHeld[tid] = std::max(maxHeld[tid], holds[tid]);
        if (kind != souffle::verif::P_LOCK) return;
        auto it = owner.find(obj);
        const bool mine = it != owner.end() && it->second == tid;
        if (!mine && holds[tid] > 0) {
            atHW[tid] = 1;
            hwPoints++;
            // start_write(P); abort_write(P); start_write(P'): the node was re-parented while the thread was on its way to P's
            // lock. (try_start_write(left); abort_write(left); start_write(new sibling) looks alike, but nobody has announced an
            // operation on a node this thread is only just creating, whereas whoever re-parented the node had P' locked.)
            if (relAfterAcq[tid] && seen.count(obj)) {
                parentSwitch++;
                switches[tid]++;
            }
        }
        seen.insert(obj);
        relAfterAcq[tid] = (mine && prevObj[tid] == obj && prevAcquire[tid] && holds[tid] >= 2) ? 1 : 0;
        prevObj[tid] = obj;
        prevAcquire[tid] = mine ? 0 : 1;
        pend[tid] = static_cast<const Lock*>(obj);
    }
    int pick(const std::vector<int>& cands, bool currentFirst, std::uint64_t step) override {
        while (si < segs.size()) {
            const Seg& g = segs[si];
            const bool present = g.tid >= 0 && g.tid < n && std::find(cands.begin(), cands.end(), g.tid) != cands.end();
            if (!present) {
                si++;
                started = false;
                continue;
            }
            if (!started) {
                started = true;
                count = 0;
                ops0 = opsDone[g.tid];
                segsUsed++;
                return g.tid;
            }
            if (currentFirst && cands[0] == g.tid) {
                count++;
                bool over = false;
                switch (g.kind) {
                    case 'n': over = count >= g.n; break;
                    case 'o': over = opsDone[g.tid] > ops0; break;
                    case 'w': over = atHW[g.tid] != 0; break;
                    default: over = false;
                }
                if (over) {
                    if (g.kind == 'w') hwParks++;
                    si++;
                    started = false;
                    continue;
                }
            }
            return g.tid;
        }
        return bytes.pick(cands, currentFirst, step);
    }
};

static Result runWithSegs(const Case& c, SegSource& src) {
    g_observer = &src;
    Result r = runCase(c, &src);
    g_observer = nullptr;
    return r;
}
static void accountObserved(hc::Stats& st, const Case& c, const Result& r, const SegSource& src) {
    if (r.inconclusive) return;
    st.cls(c.segments.empty() ? "family=classic" : "family=cascade");
    if (src.hwPoints) st.cls("hold_and_wait_point");
    if (src.mostHeld >= 4) st.cls("cascade_two_levels");   // one insert held >= 4 write locks at once: leaf, two ancestors (or root lock) and a sibling
    if (src.hwParks) st.cls("parked_at_hold_and_wait");
    if (src.holdAndSpin) st.cls("hold_and_spin");
    if (src.parentSwitch) st.cls("parent_changed_while_waiting");
    if (src.parentSwitchTwice) st.cls("parent_changed_twice_while_waiting");
}

// ---- the tree's own shape (generator side) -----------------------------------------------------------------------------
struct NodeInfo {
    const void* id = nullptr;
    bool inner = false;
    int n = 0, parent = -1, pos = 0, depth = 0;   // depth: root = 1
    std::vector<std::int32_t> keys;   // last key component
    std::vector<int> children;
};
using Shape = std::vector<NodeInfo>;
template <typename Tree, int N>
struct Peek : public Tree {
    void collect(Shape& out) const {
        out.clear();
        if (this->root) rec(this->root, -1, 0, 1, out);
    }

private:
    template <typename NodeT>
    static int rec(const NodeT* nd, int parent, int pos, int depth, Shape& out) {
        const int me = (int)out.size();
        out.push_back(NodeInfo{});
        out[me].id = nd;
        out[me].inner = nd->inner;
        out[me].n = (int)nd->numElements;
        out[me].parent = parent;
        out[me].pos = pos;
        out[me].depth = depth;
        for (std::size_t i = 0; i < nd->numElements; i++) out[me].keys.push_back(nd->keys[i].v[N - 1]);
        if (nd->inner)
            for (std::size_t i = 0; i <= nd->numElements; i++) {
                const int ch = rec(nd->getChild(i), me, (int)i, depth + 1, out);
                out[me].children.push_back(ch);
            }
        return me;
    }
};
// sequentially inserts `base`, then the keys of `steps` one by one; snapshot after base and after every step
struct ShapeVisitor {
    const std::vector<KeyV>& base;
    const std::vector<KeyV>& steps;
    std::vector<Shape> snaps;
    template <typename CFG>
    void visit() {
        constexpr int N = CFG::arity;
        Peek<typename CFG::Set, N> t;
        for (auto& k : base) t.insert(toKey<N>(k));
        snaps.emplace_back();
        t.collect(snaps.back());
        for (auto& k : steps) {
            t.insert(toKey<N>(k));
            snaps.emplace_back();
            t.collect(snaps.back());
        }
    }
};
static std::vector<Shape> shapesOf(const Case& c, const std::vector<KeyV>& base, const std::vector<KeyV>& steps) {
    ShapeVisitor v{base, steps, {}};
    forConfig(c.arity, c.maxKeys, c.search, v);
    return v.snaps;
}

// ---- generator ---------------------------------------------------------------------------------------------------------
static std::vector<std::vector<KeyV>> genThreadLists(const Domain& d, int mk) {
    const int n = *rc::gen::weightedElement<int>({{5, 2}, {4, 3}, {3, 4}, {1, 5}, {1, 6}, {1, 8}});
    const int maxOps = n <= 3 ? 6 : n <= 4 ? 4 : 3;
    const int mode = *hc::R(0, 7);
    std::vector<std::vector<KeyV>> lists(n);
    auto nops = [&] { return *hc::R(1, maxOps + 1); };
    switch (mode) {
        case 0:    // random
        case 1: {
            for (auto& l : lists) {
                const int k = nops();
                for (int i = 0; i < k; i++) l.push_back(genKey(d));
            }
            break;
        }
        case 2:    // every thread ascending
        case 3: {  // every thread descending
            for (auto& l : lists) {
                const int k = nops();
                for (int i = 0; i < k; i++) l.push_back(genKey(d));
                std::sort(l.begin(), l.end(), keyLess);
                if (mode == 3) std::reverse(l.begin(), l.end());
            }
            break;
        }
        case 4: {  // all threads hammer one leaf: keys from a narrow window around one centre
            KeyV c = genKey(d);
            const int w = *rc::gen::element(1, 2, mk);
            for (auto& l : lists) {
                const int k = nops();
                for (int i = 0; i < k; i++) {
                    KeyV x = c;
                    const std::int64_t v = (std::int64_t)x[d.arity - 1] + *hc::R(-w, w + 1);
                    x[d.arity - 1] = (std::int32_t)std::max<std::int64_t>(INT32_MIN, std::min<std::int64_t>(INT32_MAX, v));
                    l.push_back(x);
                }
            }
            break;
        }
        case 5: {  // interleaved stripes: thread i inserts base+i, base+i+n, ...
            KeyV c = genKey(d);
            const int k = nops();
            const bool down = *hc::R(0, 2) == 1;
            for (int t = 0; t < n; t++)
                for (int i = 0; i < k; i++) {
                    KeyV x = c;
                    const std::int64_t off = (std::int64_t)t + (std::int64_t)i * n;
                    const std::int64_t v = (std::int64_t)x[d.arity - 1] + (down ? -off : off);
                    x[d.arity - 1] = (std::int32_t)std::max<std::int64_t>(INT32_MIN, std::min<std::int64_t>(INT32_MAX, v));
                    lists[t].push_back(x);
                }
            break;
        }
        default: {  // identical lists (maximal duplication across threads)
            std::vector<KeyV> l;
            const int k = nops();
            for (int i = 0; i < k; i++) l.push_back(genKey(d));
            for (auto& x : lists) x = l;
        }
    }
    return lists;
}

// ---- cascade family: deep trees with full nodes, writers aimed at one region, coarse schedules ----------------------------
// The pre-fill is a generated recipe (ascending / descending / shuffled / ascending with late random insertions) over
// distinct, evenly spaced keys for maxKeys 3 or 4, so that the tree has 3-5 levels. The generator then looks at the shape the
// real tree takes (a scratch tree built sequentially through the same btree code) and
//   * picks a "hot" inner node above the leaves (preferably a full, non-root one) and tops up the leaves below it and below
//     its neighbours with fresh keys until they are full (inserting into a non-full leaf does not restructure anything),
//   * searches, by sequential simulation on the scratch tree, for two fresh keys k2, k3 whose insertions (in this order)
//     re-parent one and the same full leaf twice (inner node split / inner rebalance to the left sibling), and a fresh
//     key k1 that lands in that leaf; failing that for a single re-parenting; failing that it takes random leaves of the region,
//   * gives k1, k2, k3 to three threads (plus 0-2 more threads / second keys in the same region), and
//   * generates a segment schedule, mostly of the shape  v:w a:o v:w b:o [v:w c:o]  (victim v is descheduled in front of
//     every lock it has to wait for while holding its leaf; in between another thread completes a whole insertion).
struct CascadeInfo {
    int config = 0;   // 2 double move found, 1 single move, 0 none
    int depth = 0;
    bool roles = false, pathFull = false;
};
static CascadeInfo g_lastCascade;

struct LeafRange {
    int node;
    std::int64_t lo, hi;   // exclusive bounds for a fresh key landing in this leaf
};
// in-order walk: the bounds of every leaf
static void leafRanges(const Shape& sh, int nd, std::int64_t lo, std::int64_t hi, std::vector<LeafRange>& out) {
    const NodeInfo& x = sh[nd];
    if (!x.inner) {
        out.push_back({nd, lo, hi});
        return;
    }
    for (int i = 0; i <= x.n; i++) leafRanges(sh, x.children[i], i == 0 ? lo : x.keys[i - 1], i == x.n ? hi : x.keys[i], out);
}
static bool freshIn(const LeafRange& r, std::set<std::int64_t>& used, std::int64_t& out) {
    std::vector<std::int64_t> cand;
    for (std::int64_t v = r.lo + 1; v < r.hi && cand.size() < 64; v++)
        if (!used.count(v)) cand.push_back(v);
    if (cand.empty()) return false;
    out = cand[*hc::R<std::size_t>(0, cand.size())];
    used.insert(out);
    return true;
}

static Case genCascadeCase() {
    Case c;
    c.tag = TAG;
    CascadeInfo info;
    const int cfgIdx = *rc::gen::weightedElement<int>({{3, 0}, {2, 4}, {2, 6}, {2, 1}, {2, 5}});   // maxKeys 3 and 4
    const CfgId cfg = allConfigs()[cfgIdx];
    c.arity = cfg.arity;
    c.maxKeys = cfg.maxKeys;
    c.search = cfg.search;
    c.structure = *rc::gen::weightedElement<int>({{3, ST_SET}, {2, ST_MULTI}});
    c.hints = *hc::R(0, 3) == 0;
    const int mk = cfg.maxKeys;
    const std::int32_t lead = *rc::gen::element<std::int32_t>(0, 0, 1, -1, 7);
    const int gap = *rc::gen::element(6, 8, 16);
    const std::int64_t base = *rc::gen::element<std::int64_t>(1000, 0, -500);
    auto mkKey = [&](std::int64_t v) {
        KeyV k{0, 0, 0};
        for (int i = 0; i + 1 < c.arity; i++) k[i] = lead;
        k[c.arity - 1] = (std::int32_t)v;
        return k;
    };
    // pre-fill recipe
    const int n0 = mk == 3 ? *hc::R(10, 60) : *hc::R(18, 90);
    std::vector<int> ranks(n0);
    for (int i = 0; i < n0; i++) ranks[i] = i;
    const int recipe = *rc::gen::weightedElement<int>({{5, 0}, {2, 1}, {2, 2}, {3, 3}});
    auto shuffle = [&](std::vector<int>& v, std::size_t from) {
        for (std::size_t i = v.size(); i > from + 1; i--) std::swap(v[i - 1], v[from + *hc::R<std::size_t>(0, i - from)]);
    };
    if (recipe == 1) std::reverse(ranks.begin(), ranks.end());
    if (recipe == 2) shuffle(ranks, 0);
    if (recipe == 3) {   // ascending backbone, then the remaining ranks in random order
        std::vector<int> first, rest;
        const int every = *hc::R(2, 5);
        for (int i = 0; i < n0; i++) (i % every ? first : rest).push_back(i);
        shuffle(rest, 0);
        ranks = first;
        ranks.insert(ranks.end(), rest.begin(), rest.end());
    }
    std::set<std::int64_t> used;
    for (int r : ranks) {
        c.prefill.push_back(mkKey(base + (std::int64_t)r * gap));
        used.insert(base + (std::int64_t)r * gap);
    }
    const std::int64_t LO = base - 8 * gap, HI = base + (std::int64_t)(n0 + 8) * gap;
    Shape sh = shapesOf(c, c.prefill, {})[0];
    // hot node: an inner node directly above leaves
    std::vector<int> level1;
    for (int i = 0; i < (int)sh.size(); i++)
        if (sh[i].inner && !sh[sh[i].children[0]].inner) level1.push_back(i);
    std::vector<LeafRange> ranges;
    if (!sh.empty()) leafRanges(sh, 0, LO, HI, ranges);
    std::vector<LeafRange> region;
    if (!level1.empty()) {
        std::vector<std::pair<int, int>> w;   // weight, index into level1
        std::size_t total = 0;
        for (int i = 0; i < (int)level1.size(); i++) {
            const NodeInfo& x = sh[level1[i]];
            int wt = 1;
            if (x.n == mk) wt += 3;
            if (x.parent >= 0) wt += 2;
            if (x.n == mk && x.pos > 0 && sh[sh[x.parent].children[x.pos - 1]].n < mk) wt += 4;
            w.push_back({wt, i});
            total += wt;
        }
        std::size_t pickW = *hc::R<std::size_t>(0, total);
        int hi = 0;
        for (auto& e : w) {
            if (pickW < (std::size_t)e.first) {
                hi = e.second;
                break;
            }
            pickW -= e.first;
        }
        // region: the leaves under the hot node and under its level-order neighbours
        const int from = std::max(0, hi - 1), to = std::min((int)level1.size() - 1, hi + (*hc::R(0, 2)));
        std::set<int> hotParents(level1.begin() + from, level1.begin() + to + 1);
        for (auto& r : ranges)
            if (hotParents.count(sh[r.node].parent)) region.push_back(r);
    } else
        region = ranges;
    // top up the leaves of the region
    const int fillPct = *rc::gen::element(100, 100, 85, 50);
    for (auto& r : region) {
        if (*hc::R(0, 100) >= fillPct) continue;
        for (int k = sh[r.node].n; k < mk; k++) {
            std::int64_t v;
            if (!freshIn(r, used, v)) break;
            c.prefill.push_back(mkKey(v));
        }
    }
    sh = shapesOf(c, c.prefill, {})[0];
    for (auto& x : sh) info.depth = std::max(info.depth, x.depth);
    ranges.clear();
    if (!sh.empty()) leafRanges(sh, 0, LO, HI, ranges);
    // the region again, in the topped-up tree (same inner structure, node indices unchanged since leaves did not split)
    {
        std::set<int> keep;
        for (auto& r : region) keep.insert(r.node);
        region.clear();
        for (auto& r : ranges)
            if (keep.count(r.node)) region.push_back(r);
        if (region.empty()) region = ranges;
    }
    // is there a root-to-leaf path of full nodes in the region?
    for (auto& r : region) {
        bool full = true;
        for (int x = r.node; x >= 0; x = sh[x].parent) full = full && sh[x].n == mk;
        if (full) info.pathFull = true;
    }
    auto randLeaf = [&]() -> const LeafRange& { return region[*hc::R<std::size_t>(0, region.size())]; };
    // search for k2, k3 that re-parent one full leaf twice
    std::int64_t k1 = 0, k2 = 0, k3 = 0;
    bool have = false;
    {
        std::int64_t s1 = 0, s2 = 0, s3 = 0;
        bool single = false;
        for (int attempt = 0; attempt < 24 && !have; attempt++) {
            std::set<std::int64_t> u2 = used;
            const LeafRange &a = randLeaf(), &b = randLeaf();
            std::int64_t x2, x3;
            if (!freshIn(a, u2, x2) || !freshIn(b, u2, x3)) continue;
            auto snaps = shapesOf(c, c.prefill, {mkKey(x2), mkKey(x3)});
            if (snaps.size() != 3) continue;
            auto parentOf = [](const Shape& s) {
                std::map<const void*, const void*> m;
                for (auto& x : s)
                    if (!x.inner) m[x.id] = x.parent >= 0 ? s[x.parent].id : nullptr;
                return m;
            };
            auto m0 = parentOf(snaps[0]), m1 = parentOf(snaps[1]), m2 = parentOf(snaps[2]);
            std::vector<int> twice, once;
            for (auto& r : region) {
                const NodeInfo& x = snaps[0][r.node];
                if (x.n != mk || r.node == a.node || r.node == b.node) continue;
                const void* p0 = m0[x.id];
                const void* p1 = m1[x.id];
                const void* p2 = m2[x.id];
                if (p0 != p1 && p1 != p2) twice.push_back(r.node);
                else if (p0 != p1) once.push_back(r.node);
            }
            auto take = [&](const std::vector<int>& v, std::int64_t& out) {
                const int nd = v[*hc::R<std::size_t>(0, v.size())];
                for (auto& r : region)
                    if (r.node == nd) return freshIn(r, u2, out);
                return false;
            };
            std::int64_t x1;
            if (!twice.empty() && take(twice, x1)) {
                k1 = x1, k2 = x2, k3 = x3;
                have = true;
                info.config = 2;
            } else if (!single && !once.empty() && take(once, x1)) {
                s1 = x1, s2 = x2, s3 = x3;
                single = true;
            }
        }
        if (!have && single) {
            k1 = s1, k2 = s2, k3 = s3;
            have = true;
            info.config = 1;
        }
    }
    std::vector<std::vector<KeyV>> lists;
    auto anyKey = [&]() -> KeyV {
        if (*hc::R(0, 8) == 0 && !c.prefill.empty()) return c.prefill[*hc::R<std::size_t>(0, c.prefill.size())];   // duplicate
        std::int64_t v;
        if (freshIn(randLeaf(), used, v)) return mkKey(v);
        return mkKey(HI + *hc::R(0, 50));
    };
    if (have) {
        used.insert(k1);
        used.insert(k2);
        used.insert(k3);
        lists = {{mkKey(k1)}, {mkKey(k2)}, {mkKey(k3)}};
    } else
        lists = {{anyKey()}, {anyKey()}, {anyKey()}};
    const int extraThreads = *rc::gen::weightedElement<int>({{5, 0}, {3, 1}, {1, 2}});
    for (int i = 0; i < extraThreads; i++) lists.push_back({anyKey()});
    for (auto& l : lists)
        if (*hc::R(0, 4) == 0) l.push_back(anyKey());
    // thread order
    const int n = (int)lists.size();
    std::vector<int> perm(n);
    for (int i = 0; i < n; i++) perm[i] = i;
    shuffle(perm, 0);
    Phase ph;
    ph.threads.resize(n);
    for (int i = 0; i < n; i++) ph.threads[perm[i]] = lists[i];
    c.phases.push_back(ph);
    // schedule
    std::vector<int> order(n);   // victim, a, b, c...
    info.roles = *hc::R(0, 4) != 0;
    if (info.roles)
        for (int i = 0; i < n; i++) order[i] = perm[i];
    else {
        for (int i = 0; i < n; i++) order[i] = i;
        shuffle(order, 0);
    }
    std::vector<Seg> segs;
    const int pattern = *rc::gen::weightedElement<int>({{12, 0}, {3, 1}, {3, 2}, {2, 3}});
    auto seg = [&](int t, char k, int cnt = 0) { segs.push_back(Seg{t, k, cnt}); };
    if (pattern == 3) {
        const int m = *hc::R(3, 7);
        for (int i = 0; i < m; i++) {
            const char k = *rc::gen::element('n', 'n', 'o', 'w', '*');
            seg(*hc::R(0, n), k, k == 'n' ? *hc::R(1, 15) : 0);
        }
    } else {
        const int rounds = *rc::gen::weightedElement<int>({{1, 1}, {6, 2}, {3, 3}});
        for (int i = 0; i < rounds; i++) {
            if (pattern == 2)
                seg(order[0], 'n', i == 0 ? *hc::R(4, 15) : *hc::R(1, 4));
            else
                seg(order[0], 'w');
            seg(order[1 + (i % (n - 1))], pattern == 1 ? '*' : 'o');
        }
    }
    c.segments = segText(segs);
    const int nq = *hc::R(0, 3);
    for (int i = 0; i < nq; i++) c.queries.push_back(mkKey(base + *hc::R(-2 * gap, (n0 + 2) * gap)));
    if (*hc::R(0, 2) == 0) c.sched = *rc::gen::container<std::vector<std::uint8_t>>(rc::gen::arbitrary<std::uint8_t>());
    c.tail = *hc::R<std::uint64_t>(1, 1u << 30);
    g_lastCascade = info;
    return c;
}

static Case genCase() {
    Case c;
    c.tag = TAG;
    const auto& cfgs = allConfigs();
    const CfgId cfg = cfgs[*hc::R<std::size_t>(0, cfgs.size())];
    c.arity = cfg.arity;
    c.maxKeys = cfg.maxKeys;
    c.search = cfg.search;
    c.structure = *rc::gen::weightedElement<int>({{3, ST_SET}, {2, ST_MULTI}});
    c.hints = *hc::R(0, 2) == 1;
    const int mk = effMaxKeys(cfg.arity, cfg.maxKeys);
    const Domain d = genDomain(c.arity, mk);
    // pre-fill: nothing, a nearly full / full root leaf, or a tree of depth 2-3 -- so that the concurrent inserts split
    const int pf = *rc::gen::element(0, 1, mk - 1, mk, mk, mk + 1, 2 * mk, 2 * mk + 1, 3 * mk + 1, 5 * mk);
    const int npre = std::min(pf, 140);
    for (int i = 0; i < npre; i++) c.prefill.push_back(genKey(d));
    const int pmode = *hc::R(0, 3);
    if (pmode == 1) std::sort(c.prefill.begin(), c.prefill.end(), keyLess);
    if (pmode == 2) std::sort(c.prefill.begin(), c.prefill.end(), [](const KeyV& a, const KeyV& b) { return keyLess(b, a); });
    Phase ph;
    ph.threads = genThreadLists(d, mk);
    c.phases.push_back(ph);
    const int nq = *hc::R(0, 5);
    for (int i = 0; i < nq; i++) c.queries.push_back(genKey(d));
    c.sched = *rc::gen::container<std::vector<std::uint8_t>>(rc::gen::arbitrary<std::uint8_t>());
    c.tail = *hc::R<std::uint64_t>(1, 1u << 30);
    return c;
}

int main(int argc, char** argv) {
    hc::Args args = hc::parseArgs(argc, argv);
    hc::Stats st;
    hc::Pending pending(args.pending);
    if (!args.replay.empty()) {
        Case c = Case::parse(hc::readFile(args.replay));
        SegSource src(c);
        Result r = runWithSegs(c, src);
        if (!r.ok) {
            std::cout << "FAIL: " << r.msg << "\n";
            return 1;
        }
        std::cout << (r.inconclusive ? "INCONCLUSIVE\n" : "PASS\n");
        return 0;
    }
    if (args.mode == "dfs") return dfsMain(args, st, pending, TAG, (int)args.num("structure", ST_SET));
    hc::setRcParams(args);
    const int cascadePct = (int)args.num("cascade", 25);   // share (%) of cascade-family cases among the random cases
    Case lastFail;
    std::string lastMsg;
    std::uint64_t counter = 0, generated = 0, cascadeCases = 0;
    bool ok = rc::check("B-tree sets behave as sorted sets under concurrent insertion", [&] {
        const bool cascade = cascadePct > 0 && *hc::R(0, 100) < cascadePct;
        Case c = cascade ? genCascadeCase() : genCase();
        // the trailing comment line tells, for a case that aborted the process, how many cases it took
        pending.set(c.text() + "# case " + std::to_string(generated + 1) + " of its run; " + std::to_string(cascadeCases) + " cascade-family and " +
                    std::to_string(generated - cascadeCases) + " classic cases ran before it\n");
        generated++;
        if (cascade) cascadeCases++;
        SegSource src(c);
        Result r = runWithSegs(c, src);
        if (r.ok && !r.inconclusive && (++counter % 256) == 0) {
            // determinism re-check: the same case and schedule must give the same observable history
            SegSource src2(c);
            Result r2 = runWithSegs(c, src2);
            if (r2.sig != r.sig || r2.ok != r.ok)
                st.inconclusive["nondeterministic_rerun"]++;
            else
                st.cls("determinism_recheck_ok");
        }
        pending.clear();
        accountConc(st, c, r);
        accountObserved(st, c, r, src);
        if (cascade && !r.inconclusive) {
            const CascadeInfo& ci = g_lastCascade;
            st.cls(ci.config == 2 ? "cascade:config_double_reparent" : ci.config == 1 ? "cascade:config_single_reparent" : "cascade:config_none");
            st.cls("cascade:depth=" + std::to_string(ci.depth));
            if (ci.pathFull) st.cls("cascade:full_root_to_leaf_path");
            if (ci.roles) st.cls("cascade:schedule_follows_roles");
        }
        if (!r.ok) {
            lastFail = c;
            lastMsg = r.msg;
        }
        RC_ASSERT(r.ok);
    });
    if (!ok) st.violations.push_back({lastFail.text(), lastMsg});
    if (!args.out.empty()) st.write(args.out);
    return ok ? 0 : 1;
}
