// Shared plumbing of the engine-H harnesses: statistics, JSON result file, replay/pending files, CLI.
#pragma once
#include <cstdint>
#include <cstdio>
#include <cstdlib>
#include <cstring>
#include <fstream>
#include <iostream>
#include <map>
#include <set>
#include <sstream>
#include <string>
#include <vector>

namespace hc {

inline std::uint64_t fnv(const std::string& s) {
    std::uint64_t h = 1469598103934665603ull;
    for (unsigned char c : s) {
        h ^= c;
        h *= 1099511628211ull;
    }
    return h;
}

inline std::string jsonEscape(const std::string& s) {
    std::string o;
    for (unsigned char c : s) {
        switch (c) {
            case '"': o += "\\\""; break;
            case '\\': o += "\\\\"; break;
            case '\n': o += "\\n"; break;
            case '\r': o += "\\r"; break;
            case '\t': o += "\\t"; break;
            default:
                if (c < 0x20 || c >= 0x7f) {
                    char b[8];
                    std::snprintf(b, sizeof b, "\\u%04x", c);
                    o += b;
                } else
                    o += (char)c;
        }
    }
    return o;
}

struct Violation {
    std::string caseText;
    std::string msg;
};

struct Stats {
    std::uint64_t evals = 0;
    std::set<std::uint64_t> nontrivial;
    std::map<std::string, std::uint64_t> classes;
    std::vector<std::string> samples;
    std::vector<Violation> violations;
    std::map<std::string, std::uint64_t> inconclusive;
    std::map<std::string, std::uint64_t> extra;   // numeric extras (e.g. schedules, exhaustive flag)
    std::set<std::uint64_t> sampleSeen;

    void cls(const std::string& k, std::uint64_t n = 1) {
        classes[k] += n;
    }
    void nt(const std::string& caseText) {
        nontrivial.insert(fnv(caseText));
    }
    void sample(const std::string& caseText, std::size_t cap = 3) {
        if (samples.size() < cap && sampleSeen.insert(fnv(caseText)).second) samples.push_back(caseText);
    }

    void write(const std::string& path) const {
        std::ofstream f(path);
        f << "{\n \"evaluations\": " << evals << ",\n \"distinct_nontrivial\": " << nontrivial.size() << ",\n";
        f << " \"nontrivial_hashes\": [";
        bool first = true;
        for (auto h : nontrivial) {
            f << (first ? "" : ",") << "\"" << std::hex << h << std::dec << "\"";
            first = false;
        }
        f << "],\n \"classes\": {";
        first = true;
        for (auto& kv : classes) {
            f << (first ? "" : ", ") << "\"" << jsonEscape(kv.first) << "\": " << kv.second;
            first = false;
        }
        f << "},\n \"inconclusive\": {";
        first = true;
        for (auto& kv : inconclusive) {
            f << (first ? "" : ", ") << "\"" << jsonEscape(kv.first) << "\": " << kv.second;
            first = false;
        }
        f << "},\n \"extra\": {";
        first = true;
        for (auto& kv : extra) {
            f << (first ? "" : ", ") << "\"" << jsonEscape(kv.first) << "\": " << kv.second;
            first = false;
        }
        f << "},\n \"samples\": [";
        first = true;
        for (auto& s : samples) {
            f << (first ? "" : ", ") << "\"" << jsonEscape(s) << "\"";
            first = false;
        }
        f << "],\n \"violations\": [";
        first = true;
        for (auto& v : violations) {
            f << (first ? "" : ", ") << "{\"case\": \"" << jsonEscape(v.caseText) << "\", \"msg\": \"" << jsonEscape(v.msg)
              << "\"}";
            first = false;
        }
        f << "]\n}\n";
    }
};

struct Args {
    std::uint64_t seed = 1;
    std::uint64_t cases = 1000;
    int size = 40;
    std::string mode = "random";
    std::string replay;
    std::string out;
    std::string pending;
    std::map<std::string, std::string> kv;
    long num(const std::string& k, long dflt) const {
        auto it = kv.find(k);
        return it == kv.end() ? dflt : std::atol(it->second.c_str());
    }
};

inline Args parseArgs(int argc, char** argv) {
    Args a;
    for (int i = 1; i < argc; i++) {
        std::string k = argv[i];
        auto val = [&]() -> std::string { return i + 1 < argc ? argv[++i] : ""; };
        if (k == "--seed")
            a.seed = std::strtoull(val().c_str(), nullptr, 10);
        else if (k == "--cases")
            a.cases = std::strtoull(val().c_str(), nullptr, 10);
        else if (k == "--size")
            a.size = std::atoi(val().c_str());
        else if (k == "--mode")
            a.mode = val();
        else if (k == "--replay")
            a.replay = val();
        else if (k == "--out")
            a.out = val();
        else if (k == "--pending")
            a.pending = val();
        else if (k.rfind("--", 0) == 0)
            a.kv[k.substr(2)] = val();
    }
    return a;
}

inline std::string readFile(const std::string& p) {
    std::ifstream f(p);
    std::stringstream ss;
    ss << f.rdbuf();
    return ss.str();
}

// pending-case file: written before a case runs, removed afterwards; survives sanitizer aborts
struct Pending {
    std::string path;
    explicit Pending(std::string p) : path(std::move(p)) {}
    void set(const std::string& caseText) const {
        if (path.empty()) return;
        FILE* f = std::fopen(path.c_str(), "w");
        if (f) {
            std::fwrite(caseText.data(), 1, caseText.size(), f);
            std::fclose(f);
        }
    }
    void clear() const {
        if (!path.empty()) std::remove(path.c_str());
    }
};

// configure rapidcheck through RC_PARAMS (the only way it can be configured)
inline void setRcParams(const Args& a) {
    std::ostringstream os;
    os << "seed=" << (a.seed ? a.seed : 1) << " max_success=" << a.cases << " max_size=" << a.size
       << " noshrink=0 verbose_progress=0";
    setenv("RC_PARAMS", os.str().c_str(), 1);
}

}  // namespace hc

#ifdef RAPIDCHECK_H
#error "include hcommon.h before rapidcheck.h"
#endif
#include <rapidcheck.h>
namespace hc {
// rc::gen::inRange collapses towards its lower bound at small sizes; always draw from the full range
template <typename T>
inline rc::Gen<T> R(T lo, T hiExclusive) {
    return rc::gen::resize(100, rc::gen::inRange<T>(lo, hiExclusive));
}
}  // namespace hc
