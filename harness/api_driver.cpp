// Generic driver for C21: links against a program generated with `souffle -g` (compiled with -D__EMBEDDED_SOUFFLE__) and executes a
// script of API calls read from a file; every observation is printed as one line for the Python model to judge.
//   I <rel> <v...>   insert a tuple (values are tab-separated text)     R        run()
//   C <rel> <v...>   contains -> "C <0|1>"                              Z <rel>  size -> "Z <n>"
//   T <rel>          iterate -> "T <rel>\t<v...>" per tuple, then "E"   P <rel>  purge one relation
//   PI / PO / PN     purgeInputRelations / purgeOutputRelations / purgeInternalRelations
//   L <dir>          loadAll(dir)                                      W <dir>  printAll(dir)
#include "souffle/SouffleInterface.h"
#include <fstream>
#include <iomanip>
#include <iostream>
#include <limits>
#include <sstream>
#include <string>
#include <vector>

using namespace souffle;

static std::vector<std::string> splitTab(const std::string& s) {
    std::vector<std::string> out;
    std::string cur;
    for (char c : s) {
        if (c == '\t') {
            out.push_back(cur);
            cur.clear();
        } else
            cur += c;
    }
    out.push_back(cur);
    return out;
}

static void fill(tuple& t, Relation* rel, const std::vector<std::string>& vals) {
    for (std::size_t i = 0; i < rel->getArity(); i++) {
        const char k = *rel->getAttrType(i);
        const std::string& v = vals.at(i);
        if (k == 's')
            t << v;
        else if (k == 'u')
            t << (RamUnsigned)std::stoul(v);
        else if (k == 'f')
            t << (RamFloat)std::stof(v);
        else
            t << (RamSigned)std::stol(v);
    }
}

int main(int argc, char** argv) {
    if (argc < 3) return 2;
    SouffleProgram* prog = ProgramFactory::newInstance(argv[1]);
    if (prog == nullptr) {
        std::cout << "ERR no program " << argv[1] << "\n";
        return 3;
    }
    std::ifstream script(argv[2]);
    std::string line;
    std::cout << std::setprecision(std::numeric_limits<RamFloat>::max_digits10);
    while (std::getline(script, line)) {
        if (line.empty()) continue;
        auto parts = splitTab(line);
        const std::string& cmd = parts[0];
        if (cmd == "R") {
            prog->run();
            std::cout << "R\n";
        } else if (cmd == "PI") {
            prog->purgeInputRelations();
        } else if (cmd == "PO") {
            prog->purgeOutputRelations();
        } else if (cmd == "PN") {
            prog->purgeInternalRelations();
        } else if (cmd == "L") {
            prog->loadAll(parts.at(1));
        } else if (cmd == "W") {
            prog->printAll(parts.at(1));
        } else {
            Relation* rel = prog->getRelation(parts.at(1));
            if (rel == nullptr) {
                // relations that feed nothing are removed by the optimiser: report one placeholder observation per query
                if (cmd == "T" || cmd == "Z" || cmd == "C") std::cout << "N " << parts.at(1) << "\n";
                continue;
            }
            std::vector<std::string> vals(parts.begin() + 2, parts.end());
            if (cmd == "I") {
                tuple t(rel);
                fill(t, rel, vals);
                rel->insert(t);
            } else if (cmd == "C") {
                tuple t(rel);
                fill(t, rel, vals);
                std::cout << "C " << (rel->contains(t) ? 1 : 0) << "\n";
            } else if (cmd == "Z") {
                std::cout << "Z " << rel->size() << "\n";
            } else if (cmd == "P") {
                rel->purge();
            } else if (cmd == "T") {
                for (auto& t : *rel) {
                    std::cout << "T " << parts[1];
                    for (std::size_t i = 0; i < rel->getArity(); i++) {
                        const char k = *rel->getAttrType(i);
                        std::cout << "\t";
                        if (k == 's') {
                            std::string v;
                            t >> v;
                            std::cout << v;
                        } else if (k == 'u') {
                            RamUnsigned v;
                            t >> v;
                            std::cout << v;
                        } else if (k == 'f') {
                            RamFloat v;
                            t >> v;
                            std::cout << v;
                        } else {
                            RamSigned v;
                            t >> v;
                            std::cout << v;
                        }
                    }
                    std::cout << "\n";
                }
                std::cout << "E\n";
            }
        }
    }
    delete prog;
    return 0;
}
