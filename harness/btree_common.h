// Shared code of the C25 (btree_set / btree_multiset) and C26 (btree_delete_set / btree_delete_multiset) harnesses:
// key type + comparator, the instantiated node-size configurations, the case representation (= replay file format),
// the sorted-set oracle (fullCheck), the concurrent-insertion runner under the cooperative scheduler, the
// bounded-exhaustive (dfs) driver, and the sequential stateful model test of the deletable trees.
//
// The including .cpp defines BT_PLAIN and/or BT_DELETE to select which tree families are instantiated.
#pragma once
#ifndef _SOUFFLE_STATS
#define _SOUFFLE_STATS   // CacheUtil.h: real hint hit/miss counters. btree::insert counts one hit-or-miss per (re-)entry,
                         // which gives the exact number of insert restarts without touching the code under test.
#endif
#include "hcommon.h"
#include "vsched.h"
#include "souffle/datastructure/BTree.h"
#include "souffle/datastructure/BTreeDelete.h"
#include <algorithm>
#include <array>
#include <climits>
#include <map>
#include <memory>
#include <set>
#include <type_traits>

namespace bt {

// ---- keys ---------------------------------------------------------------------------------------------------------
using KeyV = std::array<std::int32_t, 3>;   // run-time key; components >= arity are 0

template <int N>
struct Key {
    std::int32_t v[N];
    bool operator==(const Key& o) const {
        for (int i = 0; i < N; i++)
            if (v[i] != o.v[i]) return false;
        return true;
    }
    bool operator!=(const Key& o) const {
        return !(*this == o);
    }
    bool operator<(const Key& o) const {
        for (int i = 0; i < N; i++) {
            if (v[i] < o.v[i]) return true;
            if (v[i] > o.v[i]) return false;
        }
        return false;
    }
    bool operator>(const Key& o) const {
        return o < *this;
    }
};
template <int N>
std::ostream& operator<<(std::ostream& os, const Key<N>& k) {
    for (int i = 0; i < N; i++) os << (i ? "," : "") << k.v[i];
    return os;
}
// the lexicographic comparator in the shape the interpreter's index_utils::comparator has
template <int N>
struct Cmp {
    int operator()(const Key<N>& a, const Key<N>& b) const {
        for (int i = 0; i < N; i++) {
            if (a.v[i] < b.v[i]) return -1;
            if (a.v[i] > b.v[i]) return 1;
        }
        return 0;
    }
    bool less(const Key<N>& a, const Key<N>& b) const {
        return (*this)(a, b) < 0;
    }
    bool equal(const Key<N>& a, const Key<N>& b) const {
        return (*this)(a, b) == 0;
    }
};
template <int N>
Key<N> toKey(const KeyV& k) {
    Key<N> r;
    for (int i = 0; i < N; i++) r.v[i] = k[i];
    return r;
}
inline std::string keyText(const KeyV& k, int arity) {
    std::string s;
    for (int i = 0; i < arity; i++) s += (i ? "," : "") + std::to_string(k[i]);
    return s;
}
template <int N>
std::string keyText(const Key<N>& k) {
    std::ostringstream os;
    os << k;
    return os.str();
}
inline KeyV parseKey(const std::string& s) {
    KeyV k{0, 0, 0};
    std::size_t pos = 0;
    for (int i = 0; i < 3 && pos <= s.size(); i++) {
        std::size_t c = s.find(',', pos);
        k[i] = (std::int32_t)std::strtol(s.substr(pos, c == std::string::npos ? std::string::npos : c - pos).c_str(), nullptr, 10);
        if (c == std::string::npos) break;
        pos = c + 1;
    }
    return k;
}

// ---- node-size configurations -------------------------------------------------------------------------------------
enum { S_LINEAR = 0, S_BINARY = 1 };
// maxKeys 0 = the default block size (256 bytes); sizeof(btree::base) is 32 in the parallel build (checked by static_assert)
constexpr unsigned blockSizeFor(int n, int mk) {
    return mk == 0 ? 256u : mk == 3 ? 16u : (unsigned)(32 + 4 * n * mk);
}
constexpr int effMaxKeys(int n, int mk) {
    return mk ? mk : (256 - 32) / (4 * n);
}
template <int N, int MK, int S>
struct Cfg {
    static constexpr int arity = N, maxKeys = MK, search = S;
    static constexpr unsigned bs = blockSizeFor(N, MK);
    using K = Key<N>;
    using C = Cmp<N>;
    using A = std::allocator<K>;
    using Search = std::conditional_t<S == S_LINEAR, souffle::detail::linear_search, souffle::detail::binary_search>;
    using Set = souffle::btree_set<K, C, A, bs, Search>;
    using Multi = souffle::btree_multiset<K, C, A, bs, Search>;
    using DSet = souffle::btree_delete_set<K, C, A, bs, Search>;
    using DMulti = souffle::btree_delete_multiset<K, C, A, bs, Search>;
};
// (arity, maxKeys, search strategy) combinations that are instantiated
#define BT_CONFIGS(X)                                                                                            \
    X(1, 3, S_LINEAR) X(1, 4, S_BINARY) X(1, 8, S_BINARY) X(1, 0, S_LINEAR) X(2, 3, S_BINARY) X(2, 4, S_LINEAR) \
    X(3, 3, S_BINARY) X(3, 8, S_LINEAR) X(3, 0, S_BINARY)
struct CfgId {
    int arity, maxKeys, search;
};
inline const std::vector<CfgId>& allConfigs() {
    static const std::vector<CfgId> v = {
#define X(N, MK, S) {N, MK, S},
            BT_CONFIGS(X)
#undef X
    };
    return v;
}
template <typename V>
bool forConfig(int arity, int maxKeys, int search, V& v) {
#define X(N, MK, S)                                           \
    if (arity == N && maxKeys == MK && search == S) {         \
        v.template visit<Cfg<N, MK, S>>();                    \
        return true;                                          \
    }
    BT_CONFIGS(X)
#undef X
    return false;
}

enum Structure { ST_SET = 0, ST_MULTI = 1, ST_DSET = 2, ST_DMULTI = 3 };
inline const char* structName(int s) {
    static const char* n[] = {"btree_set", "btree_multiset", "btree_delete_set", "btree_delete_multiset"};
    return (s >= 0 && s < 4) ? n[s] : "?";
}
inline int structByName(const std::string& s) {
    for (int i = 0; i < 4; i++)
        if (s == structName(i)) return i;
    return -1;
}

// ---- access to protected members of the trees (read-only) ------------------------------------------------------------
template <typename Base>
struct Probe : public Base {
    using K = typename Base::key_type;
    std::size_t insertEntries() const {
        return this->hint_stats.inserts.getAccesses();
    }
    std::size_t insertHits() const {
        return this->hint_stats.inserts.getHits();
    }
    // pre-order list of (numElements*2 + inner) of all nodes
    void shape(std::vector<int>& out) const {
        out.clear();
        walkShape(this->root, out);
    }
    // is a key equal to k stored in some inner node?
    bool innerHas(const K& k) const {
        return walkInner(this->root, k);
    }

private:
    template <typename NodeT>
    static void walkShape(const NodeT* n, std::vector<int>& out) {
        if (!n) return;
        out.push_back((int)n->numElements * 2 + (n->inner ? 1 : 0));
        if (n->inner)
            for (std::size_t i = 0; i <= n->numElements; i++) walkShape(n->getChild(i), out);
    }
    template <typename NodeT>
    static bool walkInner(const NodeT* n, const K& k) {
        if (!n || !n->inner) return false;
        for (std::size_t i = 0; i < n->numElements; i++)
            if (n->keys[i] == k) return true;
        for (std::size_t i = 0; i <= n->numElements; i++)
            if (walkInner(n->getChild(i), k)) return true;
        return false;
    }
};

// ---- the sorted-set oracle on a quiescent tree -----------------------------------------------------------------------
// Compares the tree with the model: check(), size, empty, iteration, find/contains/lower_bound/upper_bound (with a reused
// hints object and without) on member keys, neighbours, extremes and the given extra probes, and (deep) chunk partitioning.
// level 0: check(), size, empty, iteration only; 1: plus a few probes; 2: all probes and chunk partitioning.
// Returns "" or the first disagreement.
template <typename Tree, int N, bool IsSet>
std::string fullCheck(Tree& t, const std::multiset<Key<N>>& model, const std::vector<KeyV>& queries, int level) {
    const bool deep = level >= 2;
    using K = Key<N>;
    using Hints = typename Tree::operation_hints;
    if (!t.check()) return "check(): the tree's structural validator reports an inconsistency";
    if (t.size() != model.size())
        return "size() = " + std::to_string(t.size()) + ", model has " + std::to_string(model.size()) + " elements";
    if (t.empty() != model.empty()) return std::string("empty() = ") + (t.empty() ? "true" : "false") + " disagrees with the model";
    // iteration
    std::vector<K> seq;
    const auto e = t.end();
    {
        auto it = t.begin();
        for (; it != e; ++it) {
            if (seq.size() > model.size()) return "iteration yields more elements than the model holds";
            seq.push_back(*it);
        }
    }
    {
        if (seq.size() != model.size())
            return "iteration yields " + std::to_string(seq.size()) + " elements, model has " + std::to_string(model.size());
        std::size_t i = 0;
        for (auto mit = model.begin(); mit != model.end(); ++mit, ++i) {
            if (!(seq[i] == *mit))
                return "iteration: element #" + std::to_string(i) + " is " + keyText(seq[i]) + ", model has " + keyText(*mit);
            if (i > 0 && (IsSet ? !(seq[i - 1] < seq[i]) : (seq[i] < seq[i - 1]))) return "iteration is not ascending at element #" + std::to_string(i);
        }
    }
    if (level == 0) return "";
    // probes
    std::vector<K> probes;
    for (auto& q : queries) probes.push_back(toKey<N>(q));
    {
        std::vector<K> dk;
        for (auto& k : model)
            if (dk.empty() || !(dk.back() == k)) dk.push_back(k);
        const std::size_t stride = deep ? std::max<std::size_t>(1, dk.size() / 48) : std::max<std::size_t>(1, dk.size() / 6);
        for (std::size_t i = 0; i < dk.size(); i += stride) {
            K k = dk[i];
            probes.push_back(k);
            if (k.v[N - 1] > INT32_MIN) {
                K p = k;
                p.v[N - 1]--;
                probes.push_back(p);
            }
            if (k.v[N - 1] < INT32_MAX) {
                K p = k;
                p.v[N - 1]++;
                probes.push_back(p);
            }
        }
        if (!dk.empty()) probes.push_back(dk.back());
        K lo, hi;
        for (int i = 0; i < N; i++) {
            lo.v[i] = INT32_MIN;
            hi.v[i] = INT32_MAX;
        }
        probes.push_back(lo);
        probes.push_back(hi);
    }
    // walk tree iterator and model iterator in lock-step for steps+1 positions
    auto sync = [&](typename Tree::iterator it, typename std::multiset<K>::const_iterator mit, std::size_t steps) -> bool {
        for (std::size_t s = 0; s <= steps; s++) {
            const bool te = (it == e), me = (mit == model.end());
            if (te != me) return false;
            if (te) return true;
            if (!(*it == *mit)) return false;
            ++it;
            ++mit;
        }
        return true;
    };
    for (int pass = 0; pass < 2; pass++) {
        Hints qh;
        const char* how = pass ? " (with hints)" : "";
        for (const K& p : probes) {
            const std::size_t cnt = model.count(p);
            auto f = pass ? t.find(p, qh) : t.find(p);
            if (cnt == 0 && f != e) return "find(" + keyText(p) + ")" + how + " returns an element, the key was never inserted / is not in the model";
            if (cnt != 0 && (f == e || !(*f == p))) return "find(" + keyText(p) + ")" + how + " does not return the stored key";
            const bool c = pass ? t.contains(p, qh) : t.contains(p);
            if (c != (cnt != 0)) return "contains(" + keyText(p) + ")" + how + " = " + (c ? "true" : "false") + " disagrees with the model";
            auto lb = pass ? t.lower_bound(p, qh) : t.lower_bound(p);
            if (!sync(lb, model.lower_bound(p), cnt + 2)) return "lower_bound(" + keyText(p) + ")" + how + " does not point at the model's lower bound";
            auto ub = pass ? t.upper_bound(p, qh) : t.upper_bound(p);
            if (!sync(ub, model.upper_bound(p), 2)) return "upper_bound(" + keyText(p) + ")" + how + " does not point at the model's upper bound";
        }
    }
    if (!deep) return "";
    // chunk partitioning
    static const std::size_t ns[] = {1, 2, 3, 7, 100};
    for (std::size_t n : ns) {
        auto chunks = (n == 2 || n == 7) ? t.partition(n) : t.getChunks(n);
        std::size_t i = 0;
        for (auto& ch : chunks) {
            for (auto it = ch.begin(); it != ch.end(); ++it) {
                if (it == e) return "getChunks(" + std::to_string(n) + "): the end of a chunk is not reachable from its begin";
                if (i >= seq.size()) return "getChunks(" + std::to_string(n) + "): chunks yield more elements than the tree holds (overlapping chunks)";
                if (!(*it == seq[i]))
                    return "getChunks(" + std::to_string(n) + "): concatenated chunks differ from the iteration order at element #" + std::to_string(i);
                i++;
            }
        }
        if (i != seq.size())
            return "getChunks(" + std::to_string(n) + "): chunks cover " + std::to_string(i) + " of " + std::to_string(seq.size()) + " elements";
        if (seq.empty() && !chunks.empty()) {
            for (auto& ch : chunks)
                if (ch.begin() != ch.end()) return "getChunks on an empty tree returns a non-empty chunk";
        }
    }
    return "";
}

// ---- concurrent cases ------------------------------------------------------------------------------------------------
struct Phase {
    bool erase = false;
    std::vector<std::vector<KeyV>> threads;   // insert phase: per-thread insertion lists (run under the scheduler)
    std::vector<KeyV> erases;                  // erase phase: keys erased sequentially (quiescent)
};
struct Case {
    std::string tag = "c25";
    int structure = ST_SET;
    int arity = 1, maxKeys = 3, search = S_LINEAR;
    bool hints = false;
    std::vector<KeyV> prefill;   // inserted sequentially before the first phase
    std::vector<Phase> phases;
    std::vector<std::uint8_t> sched;
    std::uint64_t tail = 0;
    std::string segments;        // optional coarse schedule in front of schedule/tail (interpreted by the harness, see c25_btree.cpp)
    std::vector<KeyV> queries;   // extra probes of the final oracle
    std::string text() const {
        std::ostringstream os;
        os << tag << " struct=" << structName(structure) << " arity=" << arity << " maxkeys=" << maxKeys
           << " search=" << (search == S_LINEAR ? "linear" : "binary") << " hints=" << (hints ? 1 : 0) << "\n";
        os << "prefill:";
        for (auto& k : prefill) os << " " << keyText(k, arity);
        os << "\n";
        for (auto& p : phases) {
            if (p.erase) {
                os << "erase:";
                for (auto& k : p.erases) os << " " << keyText(k, arity);
                os << "\n";
            } else {
                os << "insert-phase: " << p.threads.size() << "\n";
                for (auto& t : p.threads) {
                    os << "t:";
                    for (auto& k : t) os << " " << keyText(k, arity);
                    os << "\n";
                }
            }
        }
        if (!segments.empty()) os << "segments: " << segments << "\n";
        os << "schedule:";
        for (auto b : sched) os << " " << (int)b;
        os << "\ntail: " << tail << "\nqueries:";
        for (auto& k : queries) os << " " << keyText(k, arity);
        os << "\n";
        return os.str();
    }
    static void parseHeader(std::istringstream& ls, int& structure, int& arity, int& maxKeys, int& search, bool& hints) {
        std::string kv;
        while (ls >> kv) {
            if (kv.rfind("struct=", 0) == 0) structure = structByName(kv.substr(7));
            else if (kv.rfind("arity=", 0) == 0) arity = std::atoi(kv.c_str() + 6);
            else if (kv.rfind("maxkeys=", 0) == 0) maxKeys = std::atoi(kv.c_str() + 8);
            else if (kv.rfind("search=", 0) == 0) search = kv.substr(7) == "linear" ? S_LINEAR : S_BINARY;
            else if (kv.rfind("hints=", 0) == 0) hints = std::atoi(kv.c_str() + 6) != 0;
        }
    }
    static Case parse(const std::string& s) {
        Case c;
        std::istringstream is(s);
        std::string line;
        bool first = true;
        while (std::getline(is, line)) {
            std::istringstream ls(line);
            std::string w;
            ls >> w;
            if (first) {
                c.tag = w;
                parseHeader(ls, c.structure, c.arity, c.maxKeys, c.search, c.hints);
                first = false;
                continue;
            }
            auto keys = [&] {
                std::vector<KeyV> v;
                std::string p;
                while (ls >> p) v.push_back(parseKey(p));
                return v;
            };
            if (w == "prefill:") c.prefill = keys();
            else if (w == "erase:") {
                Phase p;
                p.erase = true;
                p.erases = keys();
                c.phases.push_back(p);
            } else if (w == "insert-phase:") {
                c.phases.push_back(Phase{});
            } else if (w == "t:") {
                if (c.phases.empty() || c.phases.back().erase) c.phases.push_back(Phase{});
                c.phases.back().threads.push_back(keys());
            } else if (w == "schedule:") {
                int x;
                while (ls >> x) c.sched.push_back((std::uint8_t)x);
            } else if (w == "segments:") {
                std::string p;
                while (ls >> p) c.segments += (c.segments.empty() ? "" : " ") + p;
            } else if (w == "tail:") {
                ls >> c.tail;
            } else if (w == "queries:") {
                c.queries = keys();
            }
        }
        return c;
    }
};

// Optional observer of the concurrent phases (schedule sources that react to what the threads do, extra statistics).
// It never influences the oracle.
struct PhaseObserver {
    virtual ~PhaseObserver() = default;
    virtual void phaseBegin(vsched::Scheduler& /*sch*/, int /*nthreads*/) {}   // before the workers start; may set sch.onPoint
    virtual void opDone(int /*tid*/, std::size_t /*opIndex*/) {}               // worker tid's opIndex-th insert returned
};
inline PhaseObserver* g_observer = nullptr;

struct Result {
    bool ok = true, inconclusive = false, harnessError = false;
    std::string msg;
    std::uint64_t steps = 0, switches = 0, spinWaits = 0;
    long restarts = 0, hintHits = 0, splits = 0, rootGrowth = 0;
    bool overlap = false;        // two insert calls of different threads overlapped in time
    long erasesHit = 0, merges = 0;
    std::uint64_t sig = 0;       // digest of everything observable (determinism re-check)
};

template <typename Tree, typename CFG, bool IsSet, bool HasErase>
Result runConcurrent(const Case& c, vsched::ChoiceSource* src) {
    constexpr int N = CFG::arity;
    static_assert(Tree::max_keys_per_node == (std::size_t)effMaxKeys(CFG::arity, CFG::maxKeys), "block size does not give the intended node size");
    using K = Key<N>;
    using Hints = typename Tree::operation_hints;
    Result res;
    auto fail = [&](const std::string& m) {
        if (res.ok) {
            res.ok = false;
            res.msg = m;
        }
    };
    auto mix = [&](std::uint64_t x) { res.sig = (res.sig ^ x) * 1099511628211ull + 0x9E37; };
    auto holder = std::make_unique<Probe<Tree>>();
    Probe<Tree>& t = *holder;
    std::multiset<K> model;
    {
        Hints h;
        for (auto& kv : c.prefill) {
            const K k = toKey<N>(kv);
            const bool exp = IsSet ? model.count(k) == 0 : true;
            const bool got = c.hints ? t.insert(k, h) : t.insert(k);
            if (got != exp) {
                fail("prefill (sequential): insert(" + keyText(k) + ") returned " + (got ? "true" : "false") + ", the model says " + (exp ? "true" : "false"));
                return res;
            }
            if (exp) model.insert(k);
        }
        std::string m = fullCheck<Tree, N, IsSet>(t, model, {}, 1);
        if (!m.empty()) {
            fail("after the sequential prefill: " + m);
            return res;
        }
    }
    int phaseNo = 0;
    for (const Phase& ph : c.phases) {
        phaseNo++;
        const std::string where = "phase " + std::to_string(phaseNo) + ": ";
        if (ph.erase) {
            if constexpr (HasErase) {
                const std::size_t nodes0 = t.getNumNodes();
                for (auto& kv : ph.erases) {
                    const K k = toKey<N>(kv);
                    const std::size_t exp = model.count(k);
                    const std::size_t got = t.erase(k);
                    mix(got);
                    if (got != exp) {
                        fail(where + "erase(" + keyText(k) + ") returned " + std::to_string(got) + ", the model holds " + std::to_string(exp));
                        return res;
                    }
                    model.erase(k);
                    res.erasesHit += (long)got;
                    if (!t.check()) {
                        fail(where + "check() fails after erase(" + keyText(k) + ")");
                        return res;
                    }
                }
                const std::size_t nodes1 = t.getNumNodes();
                if (nodes1 < nodes0) res.merges += (long)(nodes0 - nodes1);
                std::string m = fullCheck<Tree, N, IsSet>(t, model, c.queries, 2);
                if (!m.empty()) {
                    fail(where + "after the quiescent erases: " + m);
                    return res;
                }
            } else {
                res.harnessError = true;
                fail("erase phase on a tree without erase");
                return res;
            }
            continue;
        }
        const int n = (int)ph.threads.size();
        if (n == 0) continue;
        std::vector<std::vector<char>> rets(n);
        struct Span {
            std::uint64_t inv = 0, resp = 0;
        };
        std::vector<std::vector<Span>> spans(n);
        std::size_t totalOps = 0;
        for (int i = 0; i < n; i++) {
            rets[i].reserve(ph.threads[i].size());
            spans[i].resize(ph.threads[i].size());
            totalOps += ph.threads[i].size();
        }
        const std::size_t entries0 = t.insertEntries(), hits0 = t.insertHits();
        const std::size_t nodes0 = t.getNumNodes(), depth0 = t.getDepth();
        const bool wasEmpty = t.empty();
        vsched::Scheduler sch(n, src, 40000);
        sch.killOnBudget = true;
        if (g_observer) g_observer->phaseBegin(sch, n);
        std::vector<std::function<void()>> bodies;
        for (int id = 0; id < n; id++) {
            bodies.push_back([&, id] {
                Hints h;
                const auto& list = ph.threads[id];
                for (std::size_t j = 0; j < list.size(); j++) {
                    const K k = toKey<N>(list[j]);
                    spans[id][j].inv = sch.step;
                    const bool r = c.hints ? t.insert(k, h) : t.insert(k);
                    spans[id][j].resp = sch.step;
                    rets[id].push_back(r ? 1 : 0);
                    if (g_observer) g_observer->opDone(id, j);
                }
            });
        }
        const auto verdict = sch.run(bodies);
        res.steps += sch.step;
        res.switches += sch.switches;
        res.spinWaits += sch.spinPoints;
        if (verdict == vsched::V_DEADLOCK) {
            fail(where + "deadlock: every unfinished thread spins on a node/root lock and none can make progress");
            return res;
        }
        if (verdict == vsched::V_BUDGET) {
            res.inconclusive = true;
            return res;
        }
        // (2) number of successful insertions per distinct key
        std::map<K, std::pair<int, int>> perKey;   // calls, trues
        for (int i = 0; i < n; i++) {
            if (rets[i].size() != ph.threads[i].size()) {
                res.harnessError = true;
                fail("harness: a worker did not complete its list");
                return res;
            }
            for (std::size_t j = 0; j < rets[i].size(); j++) {
                auto& e = perKey[toKey<N>(ph.threads[i][j])];
                e.first++;
                e.second += rets[i][j];
                mix((std::uint64_t)rets[i][j] + 2 * spans[i][j].inv + 3 * spans[i][j].resp);
            }
        }
        for (auto& kv : perKey) {
            const K& k = kv.first;
            if (IsSet) {
                const int exp = model.count(k) ? 0 : 1;
                if (kv.second.second != exp)
                    fail(where + "insert(" + keyText(k) + ") reported success " + std::to_string(kv.second.second) + " times over " +
                            std::to_string(kv.second.first) + " concurrent calls; expected exactly " + std::to_string(exp) +
                            (exp ? "" : " (the key was already present)"));
                if (exp) model.insert(k);
            } else {
                if (kv.second.second != kv.second.first)
                    fail(where + "multiset insert(" + keyText(k) + ") returned false " + std::to_string(kv.second.first - kv.second.second) + " times");
                for (int r = 0; r < kv.second.first; r++) model.insert(k);
            }
        }
        // classification data
        {
            const long counted = (long)(t.insertEntries() - entries0);
            const long expected = (long)totalOps - ((wasEmpty && totalOps > 0) ? 1 : 0);
            if (counted > expected) res.restarts += counted - expected;
            res.hintHits += (long)(t.insertHits() - hits0);
            const std::size_t nodes1 = t.getNumNodes(), depth1 = t.getDepth();
            if (depth1 > depth0) res.rootGrowth += (long)(depth1 - depth0);
            if (nodes1 > nodes0) res.splits += (long)(nodes1 - nodes0) - (long)(depth1 - depth0);
            for (int i = 0; i < n && !res.overlap; i++)
                for (int j = i + 1; j < n && !res.overlap; j++)
                    for (auto& a : spans[i])
                        for (auto& b : spans[j])
                            if (a.inv < b.resp && b.inv < a.resp) res.overlap = true;
        }
        if (!res.ok) return res;
        // (1),(3),(4),(5)
        std::string m = fullCheck<Tree, N, IsSet>(t, model, c.queries, 2);
        if (!m.empty()) {
            fail(where + "after the concurrent insertions: " + m);
            return res;
        }
    }
    mix(res.steps);
    mix(res.switches);
    mix((std::uint64_t)res.restarts);
    return res;
}

struct ConcVisitor {
    const Case& c;
    vsched::ChoiceSource* src;
    Result res;
    template <typename CFG>
    void visit() {
        switch (c.structure) {
#ifdef BT_PLAIN
            case ST_SET: res = runConcurrent<typename CFG::Set, CFG, true, false>(c, src); break;
            case ST_MULTI: res = runConcurrent<typename CFG::Multi, CFG, false, false>(c, src); break;
#endif
#ifdef BT_DELETE
            case ST_DSET: res = runConcurrent<typename CFG::DSet, CFG, true, true>(c, src); break;
            // btree_delete_multiset::erase cannot be instantiated (BTreeDelete.h:908 befriends the isSet=true instantiation only)
            case ST_DMULTI: res = runConcurrent<typename CFG::DMulti, CFG, false, false>(c, src); break;
#endif
            default:
                res.ok = false;
                res.harnessError = true;
                res.msg = "harness: structure " + std::string(structName(c.structure)) + " is not compiled into this harness";
        }
    }
};
inline Result runCase(const Case& c, vsched::ChoiceSource* src) {
    ConcVisitor v{c, src, Result{}};
    if (!forConfig(c.arity, c.maxKeys, c.search, v)) {
        v.res.ok = false;
        v.res.harnessError = true;
        v.res.msg = "harness: no instantiated configuration for arity/maxkeys/search of this case";
    }
    return v.res;
}

inline void accountConc(hc::Stats& st, const Case& c, const Result& r) {
    st.evals++;
    st.extra["hook_steps"] += r.steps;
    st.extra["context_switches"] += r.switches;
    if (r.inconclusive) {
        st.inconclusive["step_budget"]++;
        return;
    }
    st.cls(std::string("struct=") + structName(c.structure));
    st.cls("maxkeys=" + (c.maxKeys ? std::to_string(c.maxKeys) : std::string("default")));
    st.cls(c.hints ? "hints=on" : "hints=off");
    if (r.restarts) st.cls("restart");
    if (r.spinWaits) st.cls("lock_wait");
    if (r.splits) st.cls("split");
    if (r.rootGrowth) st.cls("root_growth");
    if (r.hintHits) st.cls("hint_hit");
    if (r.overlap) st.cls("overlapping_inserts");
    if (r.erasesHit) st.cls("erase_hit");
    if (r.merges) st.cls("erase_merged_nodes");
    const bool interference = r.restarts > 0 || r.spinWaits > 0;
    if (interference && r.splits) st.cls("split_and_interference");
    if (interference) {
        st.nt(c.text());
        if (r.splits && r.restarts) st.sample(c.text());
    } else
        st.cls("trivial");
}

// ---- bounded-exhaustive mode -----------------------------------------------------------------------------------------
// threads x nops insertions from a small alphabet into a tree with maxKeys = 3 that was pre-filled with 10,20,..,10*P
// (P=3: one full root leaf, the next insert splits the root; P=5: root [20] over [10] and the full leaf [30,40,50]; ...),
// every assignment of alphabet keys to the operation slots (thread lists in non-decreasing order: threads are symmetric)
// x every schedule up to the preemption bound.
inline int dfsMain(const hc::Args& args, hc::Stats& st, const hc::Pending& pending, const std::string& tag, int structure) {
    const int P = (int)args.num("prefill", 3), nops = (int)args.num("nops", 1), bound = (int)args.num("bound", 2);
    const int nthreads = (int)args.num("threads", 2);
    const bool hints = args.num("hints", 0) != 0;
    const std::uint64_t maxSchedules = (std::uint64_t)args.num("max", 3000000);
    std::vector<int> alphabet;
    {
        auto it = args.kv.find("keys");
        if (it != args.kv.end()) {
            std::istringstream ks(it->second);
            std::string p;
            while (std::getline(ks, p, ',')) alphabet.push_back(std::atoi(p.c_str()));
        } else {
            for (int i = 0; i <= P; i++) alphabet.push_back(10 * i + 5);
            alphabet.push_back(10 * P);   // one duplicate of a stored key
        }
    }
    // all op lists of length nops over the alphabet
    std::vector<std::vector<int>> lists;
    {
        std::vector<int> d(nops, 0);
        while (true) {
            std::vector<int> l;
            for (int x : d) l.push_back(alphabet[x]);
            lists.push_back(l);
            int k = 0;
            while (k < nops && ++d[k] == (int)alphabet.size()) d[k++] = 0;
            if (k == nops) break;
        }
    }
    std::uint64_t schedules = 0, configs = 0;
    bool complete = true;
    std::vector<std::size_t> idx(nthreads, 0);
    while (true) {
        bool sorted = true;
        for (int i = 1; i < nthreads; i++)
            if (idx[i - 1] > idx[i]) sorted = false;
        if (sorted) {
            Case c;
            c.tag = tag;
            c.structure = structure;
            c.arity = 1;
            c.maxKeys = 3;
            c.search = S_LINEAR;
            c.hints = hints;
            for (int i = 1; i <= P; i++) c.prefill.push_back(KeyV{10 * i, 0, 0});
            Phase ph;
            for (int i = 0; i < nthreads; i++) {
                std::vector<KeyV> l;
                for (int x : lists[idx[i]]) l.push_back(KeyV{x, 0, 0});
                ph.threads.push_back(l);
            }
            c.phases.push_back(ph);
            configs++;
            vsched::DfsSource dfs(bound);
            do {
                dfs.beginRun();
                {
                    // the schedule about to run = the choices on the DFS stack followed by "first candidate" choices, which is
                    // what a ByteSource replays for these bytes with tail 0: a sanitizer abort leaves a replayable case behind
                    Case pc = c;
                    for (auto& f : dfs.stack) pc.sched.push_back((std::uint8_t)f.chosen);
                    pending.set(pc.text());
                }
                Result r = runCase(c, &dfs);
                pending.clear();
                schedules++;
                Case rc = c;
                for (std::size_t i = 0; i < dfs.depth; i++) rc.sched.push_back((std::uint8_t)dfs.stack[i].chosen);
                accountConc(st, rc, r);
                if (!r.ok) {
                    st.violations.push_back({rc.text(), r.msg});
                    goto out;
                }
                if (schedules >= maxSchedules) {
                    complete = false;
                    goto out;
                }
            } while (dfs.nextSchedule());
        }
        int k = 0;
        while (k < nthreads && ++idx[k] == lists.size()) idx[k++] = 0;
        if (k == nthreads) break;
    }
out:
    st.extra["schedules"] = schedules;
    st.extra["op_assignments"] = configs;
    st.extra["exhaustive"] = complete && st.violations.empty();
    st.extra["dfs_threads"] = nthreads;
    st.extra["dfs_nops"] = nops;
    st.extra["dfs_prefill"] = P;
    st.extra["dfs_preemption_bound"] = bound;
    if (!args.out.empty()) st.write(args.out);
    return st.violations.empty() ? 0 : 1;
}

// ---- generators shared by the random modes -----------------------------------------------------------------------------
// A key domain: the last component ranges over [0, span), the leading components over [0, lead); sparse = full 32-bit pool.
struct Domain {
    int arity = 1;
    bool sparse = false;
    int span = 8, lead = 2;
};
inline rc::Gen<std::int32_t> sparseValue() {
    return rc::gen::oneOf(rc::gen::element<std::int32_t>(INT32_MIN, INT32_MIN + 1, -2, -1, 0, 1, 2, 65535, 65536, -65536, INT32_MAX - 1, INT32_MAX),
            rc::gen::resize(100, rc::gen::arbitrary<std::int32_t>()));
}
inline KeyV genKey(const Domain& d) {
    KeyV k{0, 0, 0};
    for (int i = 0; i < d.arity; i++) {
        if (d.sparse)
            k[i] = *sparseValue();
        else
            k[i] = *hc::R(0, i == d.arity - 1 ? d.span : d.lead);
    }
    return k;
}
inline bool keyLess(const KeyV& a, const KeyV& b) {
    return a < b;   // components beyond the arity are 0, so std::array's lexicographic order agrees with Cmp
}
inline Domain genDomain(int arity, int mk) {
    Domain d;
    d.arity = arity;
    d.sparse = *hc::R(0, 7) == 0;
    const int total = mk * *rc::gen::element(1, 2, 2, 4, 8) + 2;   // approximate number of distinct keys
    d.lead = 2;
    int leadProduct = 1;
    for (int i = 0; i + 1 < arity; i++) leadProduct *= d.lead;
    d.span = std::max(2, total / leadProduct);
    return d;
}

}  // namespace bt
