// C31 -- symbol and record interning is a bijection under concurrency.
// Three variants share one Case / oracle:
//   fw  : ConcurrentFlyweight<MutexConcurrentLanes-based policy, std::string, configurable hash> with explicit lanes
//         (lane = worker index % lanes), plain scheduled threads
//   sym : SymbolTableImpl (lane = omp_get_thread_num() % lanes), workers are the threads of ONE omp parallel region
//   rec : SpecializedRecordTable<0,1,2,3> (arities 0-3 specialised, 4-6 through the generic fallback), same
#include "hcommon.h"
#include "vsched.h"
#include <algorithm>
#include <climits>
#include <cstring>
#include <functional>
#include <memory>
#include <omp.h>
#include "souffle/datastructure/ConcurrentFlyweight.h"
#include "souffle/datastructure/RecordTableImpl.h"
#include "souffle/datastructure/SymbolTableImpl.h"

using namespace souffle;

enum Variant { V_FW = 0, V_SYM = 1, V_REC = 2 };
static const char* const VNAME[] = {"fw", "sym", "rec"};
// I = findOrInsert (reports `inserted`), E = encode / pack (no flag), C = weakContains, F = fetch / decode / unpack of the
// reference the harness knows for that value (skipped when no completed call has returned one yet)
enum OpKind { O_INS = 0, O_ENC = 1, O_HAS = 2, O_GET = 3 };
static const char OPCH[] = "IECF";

struct Op {
    int kind;
    std::string key;   // symbol text, or the record as comma separated integers ("" = the empty record)
};

static std::vector<RamDomain> parseRec(const std::string& tok) {
    std::vector<RamDomain> r;
    if (tok.empty()) return r;
    std::size_t p = 0;
    while (true) {
        std::size_t q = tok.find(',', p);
        r.push_back((RamDomain)std::strtoll(tok.substr(p, q == std::string::npos ? q : q - p).c_str(), nullptr, 10));
        if (q == std::string::npos) break;
        p = q + 1;
    }
    return r;
}
static std::string recTok(const RamDomain* t, std::size_t a) {
    std::string s;
    for (std::size_t i = 0; i < a; i++) s += (i ? "," : "") + std::to_string(t[i]);
    return s;
}
static int arityOf(const std::string& tok) {
    return tok.empty() ? 0 : 1 + (int)std::count(tok.begin(), tok.end(), ',');
}

struct Case {
    int variant = V_FW;
    int lanes = 2;
    int cap = 1;       // fw: initial capacity
    int hash = 0;      // fw: 0 = std::hash, 1 = every key in one bucket, 2 = two buckets
    int reserve = 0;   // fw: first slot reserved (index 0 never handed out)
    int viaset = 0;    // construct with one lane, then setNumLanes(lanes) before the threads start
    std::vector<std::string> init;    // sym: constructor symbols; their number is the initial capacity (none: capacity 8)
    std::vector<std::string> setup;   // interned sequentially before the threads start
    std::vector<std::vector<Op>> ops;
    std::vector<std::uint8_t> sched;
    std::uint64_t tail = 0;
    int den = 4;       // once the schedule bytes are used up: switch threads with probability 1/den per hook point

    std::string text() const {
        std::ostringstream os;
        os << "c31 variant=" << VNAME[variant] << " threads=" << ops.size() << " lanes=" << lanes << " cap=" << cap
           << " hash=" << hash << " reserve=" << reserve << " viaset=" << viaset << "\n";
        os << "init:";
        for (auto& s : init) os << " =" << s;
        os << "\nsetup:";
        for (auto& s : setup) os << " =" << s;
        os << "\n";
        for (auto& t : ops) {
            os << "t:";
            for (auto& o : t) os << " " << OPCH[o.kind] << "=" << o.key;
            os << "\n";
        }
        os << "schedule:";
        for (auto b : sched) os << " " << (int)b;
        os << "\ntail: " << tail << " " << den << "\n";
        return os.str();
    }
    static Case parse(const std::string& s) {
        Case c;
        std::istringstream is(s);
        std::string line;
        while (std::getline(is, line)) {
            std::istringstream ls(line);
            std::string w;
            ls >> w;
            if (w == "c31") {
                std::string kv;
                while (ls >> kv) {
                    auto e = kv.find('=');
                    if (e == std::string::npos) continue;
                    std::string k = kv.substr(0, e), v = kv.substr(e + 1);
                    if (k == "variant") c.variant = v == "sym" ? V_SYM : v == "rec" ? V_REC : V_FW;
                    if (k == "lanes") c.lanes = std::atoi(v.c_str());
                    if (k == "cap") c.cap = std::atoi(v.c_str());
                    if (k == "hash") c.hash = std::atoi(v.c_str());
                    if (k == "reserve") c.reserve = std::atoi(v.c_str());
                    if (k == "viaset") c.viaset = std::atoi(v.c_str());
                }
            } else if (w == "init:" || w == "setup:") {
                std::string p;
                while (ls >> p)
                    if (p[0] == '=') (w == "init:" ? c.init : c.setup).push_back(p.substr(1));
            } else if (w == "t:") {
                std::vector<Op> t;
                std::string p;
                while (ls >> p) {
                    if (p.size() < 2 || p[1] != '=') continue;
                    const char* k = std::strchr(OPCH, p[0]);
                    if (!k) continue;
                    t.push_back(Op{(int)(k - OPCH), p.substr(2)});
                }
                c.ops.push_back(t);
            } else if (w == "schedule:") {
                int x;
                while (ls >> x) c.sched.push_back((std::uint8_t)x);
            } else if (w == "tail:") {
                ls >> c.tail;
                if (!(ls >> c.den)) c.den = 4;
            }
        }
        if (c.den < 1) c.den = 1;
        if (c.lanes < 1) c.lanes = 1;
        if (c.cap < 1) c.cap = 1;
        return c;
    }
};

// generated bytes first (as vsched::ByteSource); afterwards keep the current thread running and switch to a pseudo-randomly
// chosen other one with probability 1/den, derived from the generated tail seed
struct TailSource : vsched::ChoiceSource {
    std::vector<std::uint8_t> bytes;
    std::size_t pos = 0;
    std::uint64_t tail;
    std::uint64_t den;
    TailSource(std::vector<std::uint8_t> b, std::uint64_t tailSeed, int d)
            : bytes(std::move(b)), tail(tailSeed ? tailSeed * 0x9E3779B97F4A7C15ull + 1 : 0), den(d < 1 ? 1 : d) {}
    int pick(const std::vector<int>& cands, bool, std::uint64_t) override {
        if (pos < bytes.size()) return cands[bytes[pos++] % cands.size()];
        if (tail == 0) return cands[0];
        tail ^= tail << 13;
        tail ^= tail >> 7;
        tail ^= tail << 17;
        if ((tail >> 8) % den != 0) return cands[0];
        return cands[(tail >> 16) % cands.size()];
    }
};

// The symbol and record tables take their lane from omp_get_thread_num(). One `omp parallel num_threads(MAXT)` region
// lives for the whole process: OpenMP thread 0 runs the harness itself (generator, oracle) and worker 0 of every case,
// OpenMP thread i waits for worker i. (A parallel region per case works too -- vsched::Scheduler::runOmp, --omp region --
// but libgomp re-creates threads whenever the team size changes, which under ASan costs more than the case.)
static const int MAXT = 8;
class OmpPool {
public:
    OmpPool() {
        for (int i = 0; i < MAXT; i++) slots.emplace_back(new Slot());
    }
    void worker(int id) {
        std::unique_lock<std::mutex> lk(mu);
        while (true) {
            slots[id]->cv.wait(lk, [&] { return stop || slots[id]->job != nullptr; });
            if (stop) return;
            const std::function<void()>* j = slots[id]->job;
            slots[id]->job = nullptr;
            lk.unlock();
            (*j)();
            lk.lock();
            if (--pendingJobs == 0) doneCv.notify_one();
        }
    }
    // called on OpenMP thread 0: jobs[0] runs right here, jobs[i] on OpenMP thread i
    void runAll(const std::vector<std::function<void()>>& jobs) {
        {
            std::unique_lock<std::mutex> lk(mu);
            pendingJobs = (int)jobs.size() - 1;
            for (std::size_t i = 1; i < jobs.size(); i++) {
                slots[i]->job = &jobs[i];
                slots[i]->cv.notify_one();
            }
        }
        jobs[0]();
        std::unique_lock<std::mutex> lk(mu);
        doneCv.wait(lk, [&] { return pendingJobs == 0; });
    }
    void shutdown() {
        std::unique_lock<std::mutex> lk(mu);
        stop = true;
        for (auto& s : slots) s->cv.notify_one();
    }

private:
    struct Slot {
        const std::function<void()>* job = nullptr;
        std::condition_variable cv;
    };
    std::mutex mu;
    std::condition_variable doneCv;
    std::vector<std::unique_ptr<Slot>> slots;
    int pendingJobs = 0;
    bool stop = false;
};
static OmpPool g_pool;
static bool g_ompRegionPerCase = false;

// ---- classification state (never part of the oracle) ------------------------------------------------------------------
struct Tracker {
    int variant = 0, n = 0, lanes = 1;
    const void* fwAddr = nullptr;    // fw: the flyweight (obj of its own hook points)
    const void* fwLanes = nullptr;   // fw: lane set of the flyweight (slot array); any other traced lane set = hash map
    std::vector<char> inOp, pendingReserve, holds;
    std::vector<int> structPts, atomAfter;
    bool mutexWait = false;       // somebody found a lane / lock-all mutex taken
    bool casRetry = false;        // a bucket-head CAS failed (a competitor inserted into the same bucket first)
    bool casLost = false;         // ... and the re-search then found the key inserted by the competitor
    bool growFw = false, growMap = false;   // fw: slot array / bucket array grew while the threads ran
    bool growMidOp = false;       // fw: ... while another thread was inside an insertion
    bool growForeign = false;     // fw: ... while another lane held a reserved-but-unpublished slot
    bool sameKeyOverlap = false;  // two insertions of the same not-yet-interned value overlapped in time
    void init(int v, int nthreads, int nlanes) {
        variant = v;
        n = nthreads;
        lanes = nlanes;
        inOp.assign(n, 0);
        pendingReserve.assign(n, 0);
        structPts.assign(n, 0);
        atomAfter.assign(n, 0);
        holds.assign(lanes, 0);
    }
    void point(int tid, int kind, const void* obj) {
        if (kind == souffle::verif::P_MUTEX) mutexWait = true;
        if (pendingReserve[tid]) {   // the thread moved past `Slot = NextSlot++`
            holds[tid % lanes] = 1;
            pendingReserve[tid] = 0;
        }
        if (!inOp[tid]) return;
        if (kind == souffle::verif::P_STRUCT)
            structPts[tid]++;
        else if (kind == souffle::verif::P_ATOMIC) {
            if (structPts[tid] > 0)
                atomAfter[tid]++;   // bucket-head load, then one per CAS attempt
            else if (variant == V_FW && obj == fwAddr)
                pendingReserve[tid] = 1;
        }
    }
    void beginInsert(int tid) {
        inOp[tid] = 1;
        structPts[tid] = atomAfter[tid] = 0;
    }
    void endInsert(int tid) {
        if (pendingReserve[tid]) {
            holds[tid % lanes] = 1;
            pendingReserve[tid] = 0;
        }
        const int cas = atomAfter[tid] > 0 ? atomAfter[tid] - 1 : 0;
        const bool self = structPts[tid] >= 2;   // publish point + after-inserted point
        if (cas >= 2 || (cas >= 1 && !self)) casRetry = true;
        if (cas >= 1 && !self) casLost = true;
        if (self) holds[tid % lanes] = 0;
        inOp[tid] = 0;
    }
    void grow(const void* lanesObj, std::size_t lane) {
        const int me = vsched::tl_tid;
        const bool isFw = lanesObj == fwLanes;
        (isFw ? growFw : growMap) = true;
        for (int t = 0; t < n; t++)
            if (t != me && inOp[t]) growMidOp = true;
        if (isFw)
            for (int l = 0; l < lanes; l++)
                if ((std::size_t)l != lane && holds[l]) growForeign = true;
    }
};
static Tracker* g_trk = nullptr;
static std::vector<const void*> g_lanesReg;

// MutexConcurrentLanes with the two places the classification needs made visible; no behaviour is changed
struct TracedLanes : MutexConcurrentLanes {
    explicit TracedLanes(const std::size_t n) : MutexConcurrentLanes(n) {
        g_lanesReg.push_back(this);
    }
    void lockAllBut(const lane_id lane) const {
        if (g_trk != nullptr && vsched::tl_tid >= 0) g_trk->grow(this, lane);
        MutexConcurrentLanes::lockAllBut(lane);
    }
};

struct KeyHash {
    int mode = 0;
    std::size_t operator()(const std::string& s) const {
        const std::size_t h = std::hash<std::string>()(s);
        return mode == 0 ? h : mode == 1 ? 7 : (h & 1);
    }
};

// ---- the three structures behind one interface --------------------------------------------------------------------------
struct Key {
    std::string tok;
    std::vector<RamDomain> rec;
};

struct Table {
    virtual ~Table() = default;
    // ins: 1 / 0 = the `inserted` flag the call reported, -1 = this entry point reports none
    virtual long insert(int lane, const Key& k, bool wantFlag, int& ins) = 0;
    virtual bool contains(int lane, const Key& k) = 0;
    virtual bool fetchEq(int lane, long idx, const Key& k) = 0;
    virtual void iterate(const std::function<void(const std::string& tok, long idx)>& f) = 0;
    virtual void setNumLanes(int lanes) = 0;
    virtual bool hasContains() const {
        return true;
    }
};

struct FwTable : Table {
    using FW = ConcurrentFlyweight<TracedLanes, std::string, KeyHash>;
    FW fw;
    FwTable(int lanes, int cap, bool reserve, int hashMode) : fw(lanes, cap, reserve, KeyHash{hashMode}) {}
    long insert(int lane, const Key& k, bool, int& ins) override {
        auto r = fw.findOrInsert((std::size_t)lane, k.tok);
        ins = r.second ? 1 : 0;
        return (long)r.first;
    }
    bool contains(int lane, const Key& k) override {
        return fw.weakContains((std::size_t)lane, k.tok);
    }
    bool fetchEq(int lane, long idx, const Key& k) override {
        return fw.fetch((std::size_t)lane, (std::size_t)idx) == k.tok;
    }
    void iterate(const std::function<void(const std::string&, long)>& f) override {
        const auto e = fw.end();
        for (auto it = fw.begin(0); it != e; ++it) f(it->first, (long)it->second);
    }
    void setNumLanes(int lanes) override {
        fw.setNumLanes(lanes);
    }
};

struct SymTable : Table {
    std::unique_ptr<SymbolTableImpl> st;
    SymTable(std::size_t lanes, const std::vector<std::string>& s) {
        switch (s.size()) {
            case 0: st.reset(new SymbolTableImpl(lanes)); break;
            case 1: st.reset(new SymbolTableImpl(lanes, {s[0]})); break;
            case 2: st.reset(new SymbolTableImpl(lanes, {s[0], s[1]})); break;
            case 3: st.reset(new SymbolTableImpl(lanes, {s[0], s[1], s[2]})); break;
            case 4: st.reset(new SymbolTableImpl(lanes, {s[0], s[1], s[2], s[3]})); break;
            case 5: st.reset(new SymbolTableImpl(lanes, {s[0], s[1], s[2], s[3], s[4]})); break;
            case 6: st.reset(new SymbolTableImpl(lanes, {s[0], s[1], s[2], s[3], s[4], s[5]})); break;
            case 7: st.reset(new SymbolTableImpl(lanes, {s[0], s[1], s[2], s[3], s[4], s[5], s[6]})); break;
            default: st.reset(new SymbolTableImpl(lanes, {s[0], s[1], s[2], s[3], s[4], s[5], s[6], s[7]})); break;
        }
    }
    long insert(int, const Key& k, bool wantFlag, int& ins) override {
        if (wantFlag) {
            auto r = st->findOrInsert(k.tok);
            ins = r.second ? 1 : 0;
            return (long)r.first;
        }
        ins = -1;
        return (long)st->encode(k.tok);
    }
    bool contains(int, const Key& k) override {
        return st->weakContains(k.tok);
    }
    bool fetchEq(int, long idx, const Key& k) override {
        return st->decode((RamDomain)idx) == k.tok;
    }
    void iterate(const std::function<void(const std::string&, long)>& f) override {
        const auto e = st->end();
        for (auto it = st->begin(); it != e; ++it) f(it->first, (long)it->second);
    }
    void setNumLanes(int lanes) override {
        st->setNumLanes(lanes);
    }
};

struct RecTable : Table {
    SpecializedRecordTable<0, 1, 2, 3> rt;
    explicit RecTable(std::size_t lanes) : rt(lanes) {}
    long insert(int, const Key& k, bool, int& ins) override {
        ins = -1;
        return (long)rt.pack(k.rec.data(), k.rec.size());
    }
    bool contains(int, const Key&) override {
        return true;
    }
    bool hasContains() const override {
        return false;
    }
    bool fetchEq(int, long idx, const Key& k) override {
        const RamDomain* p = rt.unpack((RamDomain)idx, k.rec.size());
        if (k.rec.empty()) return true;   // the empty record has no data
        return p != nullptr && std::memcmp(p, k.rec.data(), k.rec.size() * sizeof(RamDomain)) == 0;
    }
    void iterate(const std::function<void(const std::string&, long)>& f) override {
        rt.enumerate([&](const RamDomain* t, std::size_t a, RamDomain key) { f(recTok(t, a), (long)key); });
    }
    void setNumLanes(int lanes) override {
        rt.setNumLanes(lanes);
    }
};

// ---- bijection model ------------------------------------------------------------------------------------------------------
struct Model {
    int variant;
    std::map<std::string, long> k2i;                    // value -> reference (first one a completed call returned)
    std::map<std::pair<int, long>, std::string> i2k;    // (reference space, reference) -> value
    std::map<std::string, int> insTrue;                 // how many calls reported inserted = true
    std::set<std::string> preset;                       // interned before the threads started
    std::set<std::string> invoked, completed;           // an interning call for the value was invoked / has returned
    std::set<std::string> flagless;                     // interned (also) through an entry point without the flag
    std::map<std::string, int> inflight;
    bool zeroIsNil = false;
    explicit Model(int v) : variant(v) {}
    int space(const std::string& tok) const {
        return variant == V_REC ? arityOf(tok) : 0;   // record references are per arity
    }
    // a completed interning call for `tok` returned (idx, ins); "" or the violated clause
    std::string onInsert(const std::string& tok, long idx, int ins, bool presetPhase) {
        const std::string shown = "'" + tok + "'";
        if (zeroIsNil && idx == 0) return "reference 0 (nil / reserved slot) returned for value " + shown;
        if (idx < 0) return "negative reference " + std::to_string(idx) + " returned for value " + shown;
        auto it = k2i.find(tok);
        if (it != k2i.end()) {
            if (it->second != idx)
                return "equal values got different references: " + shown + " -> " + std::to_string(it->second) + " and " +
                       std::to_string(idx);
        } else {
            auto key = std::make_pair(space(tok), idx);
            auto jt = i2k.find(key);
            if (jt != i2k.end())
                return "different values share reference " + std::to_string(idx) + ": '" + jt->second + "' and " + shown;
            k2i[tok] = idx;
            i2k[key] = tok;
        }
        if (ins == 1) {
            if (preset.count(tok) && !presetPhase) return "inserted=true reported for " + shown + " which was interned before the threads started";
            if (++insTrue[tok] > 1) return "inserted=true reported by two calls for value " + shown;
        }
        if (ins < 0) flagless.insert(tok);
        completed.insert(tok);
        if (presetPhase) preset.insert(tok);
        return "";
    }
};

struct Result {
    bool ok = true, inconclusive = false;
    std::string msg, why;
    Tracker trk;
    bool sharedLanes = false;
    int distinct = 0, skippedGets = 0;
    std::uint64_t steps = 0, switches = 0;
    std::uint64_t digest = 1469598103934665603ull;   // of every reference returned, in completion order
};

static Result runCase(const Case& c, vsched::ChoiceSource* src) {
    Result res;
    const int n = (int)c.ops.size();
    const int lanes = c.lanes;
    res.sharedLanes = lanes < n;
    Tracker& trk = res.trk;
    trk.init(c.variant, n, lanes);
    auto mkKey = [&](const std::string& tok) {
        Key k;
        k.tok = tok;
        if (c.variant == V_REC) k.rec = parseRec(tok);
        return k;
    };
    // ---- construction + sequential prefix (main thread = lane 0, no scheduler)
    g_lanesReg.clear();
    g_trk = nullptr;
    std::unique_ptr<Table> tab;
    const int lanes0 = c.viaset ? 1 : lanes;
    if (c.variant == V_FW) {
        auto* t = new FwTable(lanes0, c.cap, c.reserve != 0, c.hash);
        tab.reset(t);
        trk.fwAddr = &t->fw;
        trk.fwLanes = g_lanesReg.empty() ? nullptr : g_lanesReg[0];
    } else if (c.variant == V_SYM) {
        tab.reset(new SymTable(lanes0, c.init));
    } else {
        tab.reset(new RecTable(lanes0));
    }
    Model m(c.variant);
    m.zeroIsNil = c.variant == V_REC || (c.variant == V_FW && c.reserve != 0);
    std::string failure;
    auto fail = [&](const std::string& s) {
        if (failure.empty()) failure = s;
    };
    auto internSeq = [&](const std::string& tok) {
        Key k = mkKey(tok);
        m.invoked.insert(tok);
        int ins = -1;
        long idx = tab->insert(0, k, true, ins);
        std::string f = m.onInsert(tok, idx, ins, true);
        if (f.empty() && !tab->fetchEq(0, idx, k)) f = "decoding reference " + std::to_string(idx) + " does not return '" + tok + "'";
        if (!f.empty()) fail("sequential prefix: " + f);
    };
    if (c.variant == V_SYM)
        for (auto& s : c.init) internSeq(s);   // already interned by the constructor; this reads their references back
    for (auto& s : c.setup) internSeq(s);
    if (c.viaset) tab->setNumLanes(lanes);
    if (!failure.empty()) {
        res.ok = false;
        res.msg = failure;
        return res;
    }
    // ---- concurrent phase
    std::vector<std::vector<Key>> keys(n);
    for (int i = 0; i < n; i++)
        for (auto& o : c.ops[i]) keys[i].push_back(mkKey(o.key));
    vsched::Scheduler sch(n, src, 40000);
    sch.killOnBudget = true;
    sch.onPoint = [&](int tid, int kind, const void* obj) { trk.point(tid, kind, obj); };
    std::vector<std::function<void()>> bodies;
    for (int id = 0; id < n; id++) {
        bodies.push_back([&, id] {
            const int lane = id % lanes;
            for (std::size_t j = 0; j < c.ops[id].size(); j++) {
                if (!failure.empty()) return;
                const Op& o = c.ops[id][j];
                const Key& k = keys[id][j];
                if (o.kind == O_INS || o.kind == O_ENC) {
                    if (!m.completed.count(k.tok) && m.inflight[k.tok] > 0) trk.sameKeyOverlap = true;
                    m.inflight[k.tok]++;
                    m.invoked.insert(k.tok);
                    int ins = -1;
                    trk.beginInsert(id);
                    const long idx = tab->insert(lane, k, o.kind == O_INS, ins);
                    trk.endInsert(id);
                    m.inflight[k.tok]--;
                    res.digest = (res.digest ^ (std::uint64_t)(idx * 4 + ins + 1) ^ ((std::uint64_t)id << 40)) * 1099511628211ull;
                    std::string f = m.onInsert(k.tok, idx, ins, false);
                    // the reference is usable at once, in the thread that received it
                    if (f.empty() && !tab->fetchEq(lane, idx, k))
                        f = "decoding reference " + std::to_string(idx) + " right after it was returned does not give '" + k.tok + "'";
                    if (!f.empty()) {
                        fail(f);
                        return;
                    }
                } else if (o.kind == O_HAS) {
                    if (!tab->hasContains()) continue;
                    const bool done = m.completed.count(k.tok) > 0;
                    const bool got = tab->contains(lane, k);
                    if (got && !m.invoked.count(k.tok))
                        fail("weakContains('" + k.tok + "') is true although no interning call for it was ever invoked");
                    else if (!got && done)
                        fail("weakContains('" + k.tok + "') is false although an interning call for it had returned before");
                } else {
                    auto it = m.k2i.find(k.tok);
                    if (it == m.k2i.end()) {
                        res.skippedGets++;
                        continue;
                    }
                    const long idx = it->second;
                    if (!tab->fetchEq(lane, idx, k)) fail("decoding reference " + std::to_string(idx) + " does not return '" + k.tok + "'");
                }
            }
        });
    }
    g_trk = &trk;
    const vsched::Scheduler::Executor onPool = [](const std::vector<std::function<void()>>& jobs) { g_pool.runAll(jobs); };
    auto verdict = g_ompRegionPerCase ? sch.runOmp(bodies) : sch.runWith(bodies, onPool);
    g_trk = nullptr;
    res.steps = sch.step;
    res.switches = sch.switches;
    if (!failure.empty()) {
        res.ok = false;
        res.msg = failure;
        return res;
    }
    if (sch.ompShortTeam) {
        res.inconclusive = true;
        res.why = "omp_short_team";
        return res;
    }
    if (verdict == vsched::V_DEADLOCK) {
        res.ok = false;
        res.msg = "deadlock: every unfinished thread waits for a lane mutex or the lock-all mutex (" + std::to_string(sch.step) + " hook steps)";
        return res;
    }
    if (verdict == vsched::V_BUDGET) {
        res.inconclusive = true;
        res.why = "step_budget";
        return res;
    }
    // ---- quiescent phase, again under a (one-thread) scheduler so that a mutex left locked shows as a deadlock verdict
    // instead of hanging the process
    res.distinct = (int)m.k2i.size();
    vsched::ByteSource none({}, 0);
    vsched::Scheduler post(1, &none, 200000);
    post.killOnBudget = true;
    std::vector<std::function<void()>> checker;
    checker.push_back([&] {
        // (5) iteration lists every interned value exactly once, with its reference, and nothing else
        std::map<std::string, int> seen;
        std::string bad;
        tab->iterate([&](const std::string& tok, long idx) {
            if (!bad.empty()) return;
            auto it = m.k2i.find(tok);
            if (it == m.k2i.end())
                bad = "iteration lists '" + tok + "' (reference " + std::to_string(idx) + ") which was never interned";
            else if (it->second != idx)
                bad = "iteration lists '" + tok + "' with reference " + std::to_string(idx) + " but interning returned " + std::to_string(it->second);
            else if (++seen[tok] > 1)
                bad = "iteration lists '" + tok + "' twice";
        });
        if (!bad.empty()) {
            fail(bad);
            return;
        }
        for (auto& kv : m.k2i) {
            if (c.variant == V_REC && kv.first.empty()) continue;   // the arity-0 map enumerates nothing
            if (!seen.count(kv.first)) {
                fail("iteration misses interned value '" + kv.first + "' (reference " + std::to_string(kv.second) + ")");
                return;
            }
        }
        // (3) every reference ever returned decodes to its value; (1) interning again returns the same reference
        for (auto& kv : m.k2i) {
            Key k = mkKey(kv.first);
            if (!tab->fetchEq(0, kv.second, k)) {
                fail("after quiescence, decoding reference " + std::to_string(kv.second) + " does not return '" + kv.first + "'");
                return;
            }
            if (tab->hasContains() && !tab->contains(0, k)) {
                fail("after quiescence, weakContains('" + kv.first + "') is false");
                return;
            }
        }
        for (auto& kv : std::map<std::string, long>(m.k2i)) {
            Key k = mkKey(kv.first);
            int ins = -1;
            const long idx = tab->insert(0, k, true, ins);
            if (idx != kv.second) {
                fail("after quiescence, interning '" + kv.first + "' again returns " + std::to_string(idx) + " instead of " + std::to_string(kv.second));
                return;
            }
            if (ins == 1) {
                fail("after quiescence, interning '" + kv.first + "' again reports inserted=true");
                return;
            }
        }
        // (2) exactly one call per value reported inserted = true
        for (auto& kv : m.k2i) {
            if (m.preset.count(kv.first) || m.flagless.count(kv.first)) continue;
            if (m.insTrue[kv.first] != 1) {
                fail("no call reported inserted=true for value '" + kv.first + "' although it was not interned before");
                return;
            }
        }
    });
    auto pv = g_ompRegionPerCase ? post.runOmp(checker) : post.runWith(checker, onPool);
    if (!failure.empty()) {
        res.ok = false;
        res.msg = failure;
        return res;
    }
    if (pv == vsched::V_DEADLOCK) {
        res.ok = false;
        res.msg = "after all operations finished a lane mutex or the lock-all mutex is still locked (the quiescent read-back cannot take it)";
        return res;
    }
    if (pv != vsched::V_OK || post.ompShortTeam) {
        res.inconclusive = true;
        res.why = "step_budget_quiescent";
    }
    return res;
}

static bool nontrivial(const Case& c, const Result& r) {
    const Tracker& t = r.trk;
    if (t.casRetry || t.casLost) return true;
    if (c.variant == V_FW) return t.growForeign || t.growMidOp;
    return t.mutexWait && !r.sharedLanes;   // with lanes == threads a mutex is only ever found taken through the lock-all protocol
}

static void account(hc::Stats& st, const Case& c, const Result& r) {
    st.evals++;
    if (r.inconclusive) {
        st.inconclusive[r.why]++;
        return;
    }
    const Tracker& t = r.trk;
    st.extra["hook_steps"] += r.steps;
    st.extra["thread_switches"] += r.switches;
    st.cls(std::string("variant=") + VNAME[c.variant]);
    st.cls(c.ops.size() <= 2 ? "threads=2" : c.ops.size() <= 4 ? "threads=3-4" : "threads=5-8");
    if (r.sharedLanes) st.cls("lanes<threads");
    if (t.casRetry) st.cls("bucket_cas_failed");
    if (t.casLost) st.cls("cas_failed_and_research_found_competitors_key");
    if (t.sameKeyOverlap) st.cls("same_new_value_interned_by_overlapping_calls");
    if (t.mutexWait) st.cls("mutex_found_taken");
    if (t.growFw) st.cls("fw:slot_array_grew_during_run");
    if (t.growMap) st.cls("fw:bucket_array_grew_during_run");
    if (t.growMidOp) st.cls("fw:grow_while_other_thread_mid_insert");
    if (t.growForeign) st.cls("fw:grow_while_other_lane_holds_reserved_slot");
    if (r.distinct >= 14) st.cls("values>=14(bucket_array_must_have_grown)");
    if (nontrivial(c, r)) {
        st.cls(std::string("nontrivial:") + VNAME[c.variant]);
        st.nt(c.text());
        if (t.casLost) st.sample(c.text());
    } else
        st.cls("trivial");
}

// ---- value pools for the generator (the case text carries the values themselves) --------------------------------------
static std::vector<std::string> symPool;
static std::vector<std::vector<std::string>> recPool(7);
static void buildPools() {
    symPool = {"", "a", "b", "c", "d", "e", "f", "g", "h"};
    for (int i = 0; i < 6; i++) symPool.push_back("long_symbol_beyond_the_small_string_buffer_" + std::to_string(i));
    // symbols that share a bucket of the initial 13-bucket array under std::hash
    const std::size_t ref = std::hash<std::string>()("a") % 13;
    for (int i = 0, found = 0; found < 14 && i < 100000; i++) {
        std::string s = "k" + std::to_string(i);
        if (std::hash<std::string>()(s) % 13 == ref) {
            symPool.push_back(s);
            found++;
        }
    }
    const RamDomain vals[12] = {0, 1, -1, 2, INT_MIN, INT_MAX, 3, 4, 5, 6, 100, -100};
    recPool[0].push_back("");
    for (int a = 1; a <= 6; a++) {
        details::GenericRecordHash h((std::size_t)a);
        for (int j = 0; j < 12; j++) {
            std::vector<RamDomain> t((std::size_t)a, (RamDomain)(j % 3 - 1));
            t[0] = vals[j];
            recPool[a].push_back(recTok(t.data(), t.size()));
        }
        for (int j = 0; j < 4; j++) {   // differ only in the last element
            std::vector<RamDomain> t((std::size_t)a, 0);
            t[(std::size_t)a - 1] = j + 1;
            recPool[a].push_back(recTok(t.data(), t.size()));
        }
        std::vector<RamDomain> z((std::size_t)a, 0);
        const std::size_t refb = h(z) % 13;
        for (int x = 7, found = 0; found < 12 && x < 100000; x++) {
            std::vector<RamDomain> t((std::size_t)a, 1);
            t[0] = x;
            if (h(t) % 13 == refb) {
                recPool[a].push_back(recTok(t.data(), t.size()));
                found++;
            }
        }
    }
}

static int replayOne(const Case& c) {
    TailSource src(c.sched, c.tail, c.den);
    Result r = runCase(c, &src);
    if (!r.ok) {
        std::cout << "FAIL: " << r.msg << "\n";
        return 1;
    }
    std::cout << (r.inconclusive ? "INCONCLUSIVE\n" : "PASS\n");
    return 0;
}

static int realMain(int argc, char** argv) {
    hc::Args args = hc::parseArgs(argc, argv);
    hc::Stats st;
    hc::Pending pending(args.pending);
    buildPools();
    if (!args.replay.empty()) return replayOne(Case::parse(hc::readFile(args.replay)));
    if (args.mode == "dfs") {
        // bounded-exhaustive: every assignment of `keys` symbols to threads x nops findOrInsert calls on a table of
        // capacity `cap` with hash mode `hash`, x every schedule up to the preemption bound
        const int nthreads = (int)args.num("threads", 2), nops = (int)args.num("nops", 2), nkeys = (int)args.num("keys", 2);
        const int bound = (int)args.num("bound", 2), cap = (int)args.num("cap", 1), hash = (int)args.num("hash", 1);
        const int variant = (int)args.num("variant", V_FW), lanes = (int)args.num("lanes", nthreads), reserve = (int)args.num("reserve", 0);
        const int nsetup = (int)args.num("setup", 0);
        const std::uint64_t maxSchedules = (std::uint64_t)args.num("max", 3000000);
        std::uint64_t schedules = 0, assignments = 0;
        bool complete = true;
        std::vector<int> digits(nthreads * nops, 0);
        while (true) {
            // symmetry: the first call of thread 0 uses key 0
            if (digits[0] == 0) {
                Case c;
                c.variant = variant;
                c.lanes = lanes;
                c.cap = cap;
                c.hash = hash;
                c.reserve = reserve;
                if (variant == V_SYM)
                    for (int i = 0; i < cap; i++) c.init.push_back("z" + std::to_string(i));
                for (int i = 0; i < nsetup; i++) c.setup.push_back("s" + std::to_string(i));
                for (int t = 0; t < nthreads; t++) {
                    std::vector<Op> ops;
                    for (int j = 0; j < nops; j++) ops.push_back(Op{O_INS, std::string(1, (char)('a' + digits[t * nops + j]))});
                    c.ops.push_back(ops);
                }
                assignments++;
                vsched::DfsSource dfs(bound);
                do {
                    dfs.beginRun();
                    Result r = runCase(c, &dfs);
                    schedules++;
                    Case rc = c;
                    for (std::size_t i = 0; i < dfs.depth; i++) rc.sched.push_back((std::uint8_t)dfs.stack[i].chosen);
                    account(st, rc, r);
                    if (!r.ok) {
                        st.extra["first_failure_at_case"] = schedules;
                        st.violations.push_back({rc.text(), r.msg});
                        goto out;
                    }
                    if (schedules >= maxSchedules) {
                        complete = false;
                        goto out;
                    }
                } while (dfs.nextSchedule());
            }
            int k = 0;
            while (k < (int)digits.size() && ++digits[k] == nkeys) digits[k++] = 0;
            if (k == (int)digits.size()) break;
        }
    out:
        st.extra["schedules"] = schedules;
        st.extra["assignments"] = assignments;
        st.extra["exhaustive"] = complete && st.violations.empty();
        st.extra["dfs_threads"] = nthreads;
        st.extra["dfs_nops"] = nops;
        st.extra["dfs_keys"] = nkeys;
        st.extra["dfs_capacity"] = cap;
        st.extra["dfs_preemption_bound"] = bound;
        if (!args.out.empty()) st.write(args.out);
        return st.violations.empty() ? 0 : 1;
    }
    hc::setRcParams(args);
    const int onlyVariant = (int)args.num("variant", -1);
    Case lastFail;
    std::string lastMsg;
    bool ok = rc::check("interning is a bijection under concurrency", [&] {
        Case c;
        c.variant = onlyVariant >= 0 ? onlyVariant : *rc::gen::weightedElement<int>({{5, V_FW}, {3, V_SYM}, {3, V_REC}});
        const int n = *rc::gen::weightedElement<int>({{5, 2}, {4, 3}, {3, 4}, {1, 5}, {1, 6}, {1, 7}, {1, 8}});
        c.lanes = *hc::R(0, 4) == 0 ? *hc::R(1, n + 1) : n;
        c.viaset = *hc::R(0, 4) == 0;
        c.cap = *hc::R(1, 9);
        c.hash = *rc::gen::weightedElement<int>({{2, 0}, {4, 1}, {3, 2}});
        c.reserve = *hc::R(0, 2);
        // value pool of the case
        const int mainArity = *hc::R(0, 12) == 0 ? 0 : *hc::R(1, 7);
        auto genKey = [&]() -> std::string {
            if (c.variant == V_REC) {
                const int a = *hc::R(0, 4) == 0 ? *hc::R(0, 7) : mainArity;
                return recPool[a][*hc::R<std::size_t>(0, recPool[a].size())];
            }
            return symPool[*hc::R<std::size_t>(0, symPool.size())];
        };
        if (c.variant == V_SYM) {
            const int ni = *hc::R(0, 9);
            for (int i = 0; i < ni; i++) c.init.push_back(genKey());
        }
        const int su = *rc::gen::weightedElement<int>({{3, 0}, {3, 1}, {3, 2}});
        const int ns = su == 0 ? 0 : su == 1 ? *hc::R(1, 5) : *hc::R(8, 17);
        for (int i = 0; i < ns; i++) c.setup.push_back(genKey());
        std::vector<std::string> pool;
        const int nk = *hc::R(1, 7);
        for (int i = 0; i < nk; i++) pool.push_back(genKey());
        if (!c.setup.empty() && *hc::R(0, 2) == 0) pool.push_back(c.setup[*hc::R<std::size_t>(0, c.setup.size())]);
        for (int i = 0; i < n; i++) {
            const int no = *hc::R(1, n > 4 ? 5 : 7);
            std::vector<Op> t;
            for (int j = 0; j < no; j++) {
                int kind;
                if (c.variant == V_REC)
                    kind = *hc::R(0, 10) < 7 ? O_ENC : O_GET;
                else {
                    const int x = *hc::R(0, 10);
                    kind = x < 6 ? ((c.variant == V_SYM && x % 2) ? O_ENC : O_INS) : x < 8 ? O_HAS : O_GET;
                }
                t.push_back(Op{kind, pool[*hc::R<std::size_t>(0, pool.size())]});
            }
            c.ops.push_back(t);
        }
        c.sched = *rc::gen::container<std::vector<std::uint8_t>>(rc::gen::arbitrary<std::uint8_t>());
        c.tail = *hc::R<std::uint64_t>(0, 1u << 30);
        c.den = *rc::gen::element<int>(2, 4, 8, 16, 32);
        pending.set(c.text());
        TailSource src(c.sched, c.tail, c.den);
        Result r = runCase(c, &src);
        pending.clear();
        account(st, c, r);
        if (!r.ok) {
            if (!st.extra.count("first_failure_at_case")) st.extra["first_failure_at_case"] = st.evals;
            lastFail = c;
            lastMsg = r.msg;
        } else if (st.evals % 500 == 0 && !r.inconclusive) {
            // determinism self-check (DESIGN 8.1): the same case and schedule must give the same execution
            TailSource again(c.sched, c.tail, c.den);
            Result r2 = runCase(c, &again);
            st.cls("determinism_rechecked");
            if (r2.ok && (r2.digest != r.digest || r2.steps != r.steps)) st.inconclusive["execution_not_deterministic"]++;
        }
        RC_ASSERT(r.ok);
    });
    if (!ok) st.violations.push_back({lastFail.text(), lastMsg});
    if (!args.out.empty()) st.write(args.out);
    return ok ? 0 : 1;
}

int main(int argc, char** argv) {
    for (int i = 1; i + 1 < argc; i++)
        if (std::string(argv[i]) == "--omp" && std::string(argv[i + 1]) == "region") g_ompRegionPerCase = true;
    if (g_ompRegionPerCase) return realMain(argc, argv);
    int rc = 0;
    bool shortTeam = false;
    omp_set_dynamic(0);
#pragma omp parallel num_threads(MAXT) shared(rc, shortTeam)
    {
        const int id = omp_get_thread_num();
        if (omp_get_num_threads() < MAXT) {
            if (id == 0) shortTeam = true;
        } else if (id == 0) {
            rc = realMain(argc, argv);
            g_pool.shutdown();
        } else
            g_pool.worker(id);
    }
    if (shortTeam) {   // the runtime refuses a team of MAXT threads: fall back to one region per case
        g_ompRegionPerCase = true;
        return realMain(argc, argv);
    }
    return rc;
}
