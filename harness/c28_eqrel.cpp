// C28 -- equivalence-relation storage (souffle::EquivalenceRelation) is the closure of the inserted pairs.
// Case kind "c28": a history over two relations A (main) and B (other): sequential inserts, concurrent insert phases under the
// cooperative scheduler, insertAll, extendAndInsert, clear, interleaved with quiescent reads that build / must invalidate the
// iteration cache; every read is compared with a naive partition model.
// Case kind "c28p": PiggyList / RandomInsertPiggyList alone, with small initial blocks, appended to from scheduled threads.
#include "hcommon.h"
#include "vsched.h"
#include "c2x_sources.h"
#include "souffle/RamTypes.h"
#include "souffle/datastructure/EquivalenceRelation.h"
#include "souffle/datastructure/PiggyList.h"
#include "souffle/datastructure/UnionFind.h"
#include <algorithm>
#include <climits>
#include <memory>

using souffle::RamDomain;
static_assert(sizeof(RamDomain) == 4, "the harness assumes 32-bit RamDomain");
using ER = souffle::EquivalenceRelation<souffle::Tuple<RamDomain, 2>>;
using SDS = souffle::SparseDisjointSet<RamDomain>;
using Pair = std::pair<std::int32_t, std::int32_t>;
static const std::int32_t MINV = INT32_MIN;   // MIN_RAM_SIGNED: the "unbound" marker of lower_bound (known finding F4)

// ---- cheap reset of a relation between cases ---------------------------------------------------------------------------
// A fresh relation allocates 512 KB + 256 KB on its first insert, which costs milliseconds per case under ASan. Cases with
// fresh=0 therefore re-use two static relations whose element counters are rewound (first blocks allocated, every node block
// and every dense->sparse entry is re-initialised on creation); cases with fresh=1 construct new objects.
// DisjointSet and SparseDisjointSet befriend every EquivalenceRelation<T>; `sds` itself is reached through the
// explicit-instantiation access idiom.
template <typename Tag, typename Tag::type M>
struct Rob {
    friend typename Tag::type robGet(Tag) {
        return M;
    }
};
struct SdsTag {
    using type = SDS ER::*;
    friend type robGet(SdsTag);
};
template struct Rob<SdsTag, &ER::sds>;
struct C28Tag {};
namespace souffle {
template <>
class EquivalenceRelation<C28Tag> {
public:
    static void rewind(SDS& s) {
        s.ds.a_blocks.m_size = 0;
        s.sparseToDenseMap.clear();
        s.denseToSparseMap.numElements = 0;
    }
};
}  // namespace souffle
static void rewindRelation(ER& r) {
    souffle::EquivalenceRelation<C28Tag>::rewind(r.*robGet(SdsTag()));
    r.emptyPartition();
}
// canonical start state of a re-used relation: first blocks allocated, no elements. Without this the hook sequence of a case
// would depend on whether the previous case ended with clear() (which frees the blocks), and a replay in a new process would
// not meet the same schedule.
static void warmRelation(ER& r) {
    rewindRelation(r);
    r.insert(0, 0);
    rewindRelation(r);
}

// ---- case ------------------------------------------------------------------------------------------------------------
enum StepKind { S_INS = 'I', S_INSB = 'J', S_PAR = 'P', S_ALL = 'A', S_EXT = 'E', S_CLR = 'C', S_CLRB = 'D', S_READ = 'R' };
// read kinds: 0 everything, 1 size/empty, 2 full iteration, 3 contains only (does not touch the cache), 4 per-element and
// per-pair ranges, 5 partition(arg), 6 closure per class
struct Step {
    int kind = S_INS;
    std::int32_t a = 0, b = 0;   // I/J: the pair; R: read kind and argument
    std::vector<std::vector<Pair>> threads;   // P
    c2x::SchedSpec ss;                        // P
};

struct PiggyOp {
    int kind;   // 'A' append(v), 'N' createNode()+get(idx)=v, 'X' insertAt(idx, v)
    std::int64_t idx;
    std::int32_t val;
};

struct Case {
    bool piggy = false;
    // eqrel
    int fresh = 0;
    std::vector<std::int32_t> probe;   // elements used in lookups (never INT32_MIN)
    std::vector<Step> steps;
    // piggy
    int bits = 1, random = 0;
    std::vector<std::vector<PiggyOp>> pops;
    c2x::SchedSpec ss;

    std::string text() const {
        std::ostringstream os;
        if (piggy) {
            os << "c28p bits=" << bits << " random=" << random << "\n";
            for (auto& t : pops) {
                os << "t:";
                for (auto& o : t) {
                    os << " " << (char)o.kind;
                    if (o.kind == 'X') os << o.idx << ":";
                    os << o.val;
                }
                os << "\n";
            }
            ss.write(os);
            return os.str();
        }
        os << "c28 fresh=" << fresh << "\nprobe:";
        for (auto e : probe) os << " " << e;
        os << "\n";
        for (auto& s : steps) {
            os << "s: " << (char)s.kind;
            if (s.kind == S_INS || s.kind == S_INSB || s.kind == S_READ) os << " " << s.a << " " << s.b;
            os << "\n";
            if (s.kind == S_PAR) {
                for (auto& t : s.threads) {
                    os << "t:";
                    for (auto& p : t) os << " " << p.first << "," << p.second;
                    os << "\n";
                }
                s.ss.write(os);
            }
        }
        return os.str();
    }
    static Case parse(const std::string& s) {
        Case c;
        std::istringstream is(s);
        std::string line;
        while (std::getline(is, line)) {
            std::istringstream ls(line);
            std::string w;
            ls >> w;
            if (w == "c28" || w == "c28p") {
                c.piggy = (w == "c28p");
                std::string kv;
                while (ls >> kv) {
                    if (kv.rfind("fresh=", 0) == 0) c.fresh = std::atoi(kv.c_str() + 6);
                    if (kv.rfind("bits=", 0) == 0) c.bits = std::atoi(kv.c_str() + 5);
                    if (kv.rfind("random=", 0) == 0) c.random = std::atoi(kv.c_str() + 7);
                }
            } else if (w == "probe:") {
                long long x;
                while (ls >> x) c.probe.push_back((std::int32_t)x);
            } else if (w == "s:") {
                Step st;
                std::string k;
                ls >> k;
                st.kind = k.empty() ? S_READ : k[0];
                long long x = 0, y = 0;
                ls >> x >> y;
                st.a = (std::int32_t)x;
                st.b = (std::int32_t)y;
                c.steps.push_back(st);
            } else if (w == "t:") {
                std::string p;
                if (c.piggy) {
                    std::vector<PiggyOp> t;
                    while (ls >> p) {
                        PiggyOp o{p[0], 0, 0};
                        auto k = p.find(':');
                        if (k != std::string::npos) {
                            o.idx = std::atoll(p.substr(1, k - 1).c_str());
                            o.val = (std::int32_t)std::atoll(p.substr(k + 1).c_str());
                        } else
                            o.val = (std::int32_t)std::atoll(p.substr(1).c_str());
                        t.push_back(o);
                    }
                    c.pops.push_back(t);
                } else if (!c.steps.empty()) {
                    std::vector<Pair> t;
                    while (ls >> p) {
                        auto k = p.find(',');
                        t.push_back({(std::int32_t)std::atoll(p.substr(0, k).c_str()), (std::int32_t)std::atoll(p.substr(k + 1).c_str())});
                    }
                    c.steps.back().threads.push_back(t);
                }
            } else
                ((c.piggy || c.steps.empty()) ? c.ss : c.steps.back().ss).parseLine(w, ls);
        }
        if (c.bits < 0) c.bits = 0;
        if (c.bits > 8) c.bits = 8;
        return c;
    }
};

struct Result {
    bool ok = true, inconclusive = false;
    std::string msg;
    bool stalePattern = false;   // cache-building read, then a partition-changing write, then a read
    bool bigMerge = false;       // ... where the write merged two classes of size >= 2
    bool overlap = false;        // two inserts of different threads ran interleaved
    bool cycleRace = false;      // ... and concerned the same final class
    bool usedAll = false, usedExt = false, usedClear = false;
    bool piggyGrowthRace = false;   // piggy: an append ran interleaved with another thread's append that had to allocate
    std::uint64_t steps = 0, sig = 0;
};

struct Fail {
    std::string msg;
};

// ASan defaults for this harness (keys given in ASAN_OPTIONS still win): a small quarantine keeps re-using warm memory instead of
// faulting in fresh pages for every case, short allocation stacks make malloc/free cheap; detection is unaffected for the
// short-lived objects of one case. Measured 2.4x faster cases.
extern "C" const char* __asan_default_options() {
    return "quarantine_size_mb=16:malloc_context_size=5";
}

// ---- naive partition model ---------------------------------------------------------------------------------------------
struct EqModel {
    std::map<std::int32_t, std::int32_t> parent;
    bool has(std::int32_t x) const {
        return parent.count(x) != 0;
    }
    std::int32_t find(std::int32_t x) const {
        while (parent.at(x) != x) x = parent.at(x);
        return x;
    }
    void add(std::int32_t x) {
        if (!has(x)) parent[x] = x;
    }
    bool related(std::int32_t a, std::int32_t b) const {
        return has(a) && has(b) && find(a) == find(b);
    }
    std::size_t classSize(std::int32_t x) const {
        std::size_t n = 0;
        auto r = find(x);
        for (auto& kv : parent)
            if (find(kv.first) == r) n++;
        return n;
    }
    // returns true iff two different classes were merged or an element was added
    bool unite(std::int32_t a, std::int32_t b, bool* big = nullptr) {
        bool changed = !has(a) || !has(b);
        add(a);
        add(b);
        auto ra = find(a), rb = find(b);
        if (ra != rb) {
            if (big && classSize(a) >= 2 && classSize(b) >= 2) *big = true;
            parent[ra] = rb;
            changed = true;
        }
        return changed;
    }
    std::map<std::int32_t, std::vector<std::int32_t>> classes() const {
        std::map<std::int32_t, std::vector<std::int32_t>> m;
        for (auto& kv : parent) m[find(kv.first)].push_back(kv.first);
        return m;
    }
    std::vector<Pair> allPairs() const {
        std::vector<Pair> v;
        for (auto& c : classes())
            for (auto x : c.second)
                for (auto y : c.second) v.push_back({x, y});
        std::sort(v.begin(), v.end());
        return v;
    }
    std::vector<Pair> anterior(std::int32_t a) const {
        std::vector<Pair> v;
        if (!has(a)) return v;
        for (auto& kv : parent)
            if (find(kv.first) == find(a)) v.push_back({a, kv.first});
        std::sort(v.begin(), v.end());
        return v;
    }
    std::size_t size() const {
        std::size_t s = 0;
        for (auto& c : classes()) s += c.second.size() * c.second.size();
        return s;
    }
};

static std::string ps(const Pair& p) {
    return "(" + std::to_string(p.first) + "," + std::to_string(p.second) + ")";
}

// failure texts are built lazily (W = callable returning std::string): the batteries run thousands of comparisons per case
template <typename W>
static std::vector<Pair> collect(ER::iterator b, const ER::iterator& e, std::size_t bound, W what) {
    std::vector<Pair> v;
    while (b != e) {
        if (v.size() > bound) throw Fail{what() + ": more than " + std::to_string(bound) + " pairs enumerated (range does not end)"};
        v.push_back({(*b)[0], (*b)[1]});
        ++b;
    }
    return v;
}

template <typename W>
static void samePairs(std::vector<Pair> got, const std::vector<Pair>& exp, W what) {
    std::sort(got.begin(), got.end());
    for (std::size_t i = 1; i < got.size(); i++)
        if (got[i] == got[i - 1]) throw Fail{what() + ": pair " + ps(got[i]) + " listed twice"};
    std::size_t i = 0, j = 0;
    while (i < got.size() || j < exp.size()) {
        if (j == exp.size() || (i < got.size() && got[i] < exp[j])) throw Fail{what() + ": spurious pair " + ps(got[i])};
        if (i == got.size() || exp[j] < got[i]) throw Fail{what() + ": missing pair " + ps(exp[j])};
        i++, j++;
    }
}

// quiescent read of relation r against model m; returns true if the read went through the iteration cache
static bool readBattery(const ER& r, const EqModel& m, const std::vector<std::int32_t>& probe, int kind, int arg, const std::string& tag) {
    const std::vector<Pair> all = m.allPairs();
    const std::size_t N = all.size();
    bool cache = false;
    std::vector<std::int32_t> els = probe;   // lookup elements: the probe list plus every mentioned element except INT32_MIN
    for (auto& kv : m.parent)
        if (kv.first != MINV) els.push_back(kv.first);
    std::sort(els.begin(), els.end());
    els.erase(std::unique(els.begin(), els.end()), els.end());
    els.erase(std::remove(els.begin(), els.end(), MINV), els.end());
    // class of every lookup element (index into `classes`, -1 = not mentioned), so that the expectations are table look-ups
    const auto classMap = m.classes();
    std::map<std::int32_t, const std::vector<std::int32_t>*> classOf;
    for (auto& c : classMap)
        for (auto x : c.second) classOf[x] = &c.second;
    auto related = [&](std::int32_t a, std::int32_t b) {
        auto ia = classOf.find(a), ib = classOf.find(b);
        return ia != classOf.end() && ib != classOf.end() && ia->second == ib->second;
    };
    auto anterior = [&](std::int32_t a) {
        std::vector<Pair> v;
        auto ia = classOf.find(a);
        if (ia != classOf.end())
            for (auto x : *ia->second) v.push_back({a, x});
        return v;   // class members are ascending
    };
    using TT = souffle::Tuple<RamDomain, 2>;
    if (kind == 0 || kind == 3) {
        // (1) contains(a,b) <=> a ~ b and both were mentioned   (INT32_MIN may be an operand of contains: no "unbound" there)
        std::vector<std::int32_t> ce = els;
        if (m.has(MINV)) ce.push_back(MINV);
        ER::operation_hints h;
        for (auto a : ce)
            for (auto b : ce) {
                const bool e = related(a, b);
                if (r.contains(a, b) != e) throw Fail{tag + " contains" + ps({a, b}) + " = " + std::to_string(!e) + ", model says " + std::to_string(e)};
                if (r.contains(TT{a, b}, h) != e) throw Fail{tag + " contains(tuple" + ps({a, b}) + ") disagrees with the model"};
            }
    }
    if (kind == 0 || kind == 1) {
        // (2) size = sum of squared class sizes
        cache = true;
        if (r.size() != N) throw Fail{tag + " size() = " + std::to_string(r.size()) + ", model " + std::to_string(N)};
        if (r.empty() != (N == 0)) throw Fail{tag + " empty() disagrees with the model"};
    }
    if (kind == 0 || kind == 2) {
        // (3) full iteration lists each related pair exactly once
        cache = true;
        auto w = [&] { return tag + " iteration"; };
        samePairs(collect(r.begin(), r.end(), N, w), all, w);
    }
    if (kind == 0 || kind == 4) {
        cache = true;
        {
            auto w = [&] { return tag + " getBoundaries<0>"; };
            auto g0 = r.getBoundaries<0>(TT{0, 0});
            samePairs(collect(g0.begin(), g0.end(), N, w), all, w);
            auto w2 = [&] { return tag + " lower_bound(unbound,unbound)"; };
            samePairs(collect(r.lower_bound({MINV, MINV}), r.end(), N, w2), all, w2);
        }
        for (auto a : els) {
            // (4) per-element ranges: exactly the pairs with that anterior
            const auto expA = anterior(a);
            auto w1 = [&] { return tag + " getBoundaries<1>(" + std::to_string(a) + ",_)"; };
            auto g1 = r.getBoundaries<1>(TT{a, 0});
            samePairs(collect(g1.begin(), g1.end(), N, w1), expA, w1);
            if (g1.empty() != expA.empty()) throw Fail{w1() + ".empty() disagrees with the model"};
            auto w2 = [&] { return tag + " lower_bound(" + std::to_string(a) + ",unbound)"; };
            samePairs(collect(r.lower_bound({a, MINV}), r.end(), N, w2), expA, w2);
            if (!expA.empty()) {
                auto w3 = [&] { return tag + " anteriorIt(" + std::to_string(a) + ")"; };
                samePairs(collect(r.anteriorIt(a), r.end(), N, w3), expA, w3);
            }
            if (r.upper_bound({a, a}) != r.end()) throw Fail{tag + " upper_bound is documented to return end()"};
            for (auto b : els) {
                // (4) per-pair ranges: exactly that pair, iff related
                std::vector<Pair> expP;
                if (related(a, b)) expP.push_back({a, b});
                auto w4 = [&] { return tag + " getBoundaries<2>" + ps({a, b}); };
                auto g2 = r.getBoundaries<2>(TT{a, b});
                samePairs(collect(g2.begin(), g2.end(), N, w4), expP, w4);
                auto w5 = [&] { return tag + " lower_bound" + ps({a, b}); };
                samePairs(collect(r.lower_bound({a, b}), r.end(), N, w5), expP, w5);
            }
        }
    }
    if (kind == 0 || kind == 6) {
        // closure(x): all pairs within x's class, once each
        cache = true;
        for (auto& c : classMap) {
            std::vector<Pair> expC;
            for (auto x : c.second)
                for (auto y : c.second) expC.push_back({x, y});
            const std::int32_t el = c.second[(std::size_t)(arg < 0 ? 0 : arg) % c.second.size()];
            auto w = [&] { return tag + " closure(" + std::to_string(el) + ")"; };
            samePairs(collect(r.closure(el), r.end(), N, w), expC, w);
        }
    }
    if (kind == 0 || kind == 5) {
        // (5) the ranges of partition(n) are disjoint and cover all pairs
        cache = true;
        std::vector<int> ns;
        if (kind == 5)
            ns.push_back(arg < 0 ? 0 : arg);
        else
            ns = {0, 1, 2, 3, 7, 100, arg < 0 ? 4 : arg};
        for (int n : ns) {
            auto w = [&] { return tag + " partition(" + std::to_string(n) + ")"; };
            auto chunks = r.partition((std::size_t)n);
            std::vector<Pair> got;
            for (auto& ch : chunks) {
                auto part = collect(ch.begin(), ch.end(), N, w);
                got.insert(got.end(), part.begin(), part.end());
                if (got.size() > N) throw Fail{w() + ": the ranges list more pairs than the relation holds (overlap)"};
            }
            samePairs(got, all, w);
        }
    }
    return cache;
}

// ---- eqrel history -----------------------------------------------------------------------------------------------------
static Result runEqrel(const Case& c, vsched::ChoiceSource* overrideSrc) {
    Result res;
    static ER* SA = new ER();
    static ER* SB = new ER();
    std::unique_ptr<ER> fa, fb;
    ER *A, *B;
    if (c.fresh) {
        fa.reset(new ER());
        fb.reset(new ER());
        A = fa.get();
        B = fb.get();
    } else {
        warmRelation(*SA);
        warmRelation(*SB);
        A = SA;
        B = SB;
    }
    EqModel ma, mb;
    int stale = 0;   // 0: nothing, 1: cache built, 2: written after the cache was built
    bool bigPending = false;
    auto wrote = [&](bool changed, bool big) {
        if (changed && stale >= 1) {
            stale = 2;
            if (big) bigPending = true;
        }
    };
    auto didRead = [&](bool cache) {
        if (stale == 2) {
            res.stalePattern = true;
            if (bigPending) res.bigMerge = true;
        }
        if (cache && stale == 0) stale = 1;
    };
    try {
        int stepNo = 0;
        for (auto& s : c.steps) {
            const std::string tag = "step " + std::to_string(++stepNo) + " (" + std::string(1, (char)s.kind) + "):";
            switch (s.kind) {
                case S_INS:
                case S_INSB: {
                    ER& r = s.kind == S_INS ? *A : *B;
                    EqModel& m = s.kind == S_INS ? ma : mb;
                    const bool expNew = !m.related(s.a, s.b);
                    const bool got = r.insert(s.a, s.b);
                    if (got != expNew) throw Fail{tag + " insert" + ps({s.a, s.b}) + " returned " + std::to_string(got) + " but the pair was " + (expNew ? "new" : "already contained")};
                    bool big = false;
                    bool ch = m.unite(s.a, s.b, &big);
                    if (s.kind == S_INS) wrote(ch, big);
                    break;
                }
                case S_PAR: {
                    const int n = (int)s.threads.size();
                    if (n == 0) break;
                    struct Rec {
                        int tid;
                        Pair p;
                        std::uint64_t inv, resp;
                    };
                    // one log per thread: if the step budget runs out the scheduler lets the threads run freely (and truly in
                    // parallel), so nothing the bodies touch besides the relation may be shared
                    std::vector<std::vector<Rec>> logs(n);
                    std::uint64_t nins = 0;
                    for (auto& t : s.threads) nins += t.size();
                    auto own = s.ss.make(n, 60 * (nins ? nins : 1));
                    vsched::ChoiceSource* src = overrideSrc ? overrideSrc : own.get();
                    vsched::Scheduler sch(n, src, overrideSrc ? 6000 : (s.ss.pct > 0 ? 12000 : 60000));
                    sch.onPoint = [&](int tid, int kind, const void*) { res.sig = res.sig * 1099511628211ull + (std::uint64_t)(tid * 8 + kind + 1); };
                    std::vector<std::function<void()>> bodies;
                    for (int id = 0; id < n; id++) {
                        logs[id].reserve(s.threads[id].size());
                        bodies.push_back([&, id] {
                            for (auto& p : s.threads[id]) {
                                logs[id].push_back(Rec{id, p, sch.step, 0});
                                A->insert(p.first, p.second);
                                logs[id].back().resp = sch.step;
                            }
                        });
                    }
                    auto verdict = sch.run(bodies);
                    res.steps += sch.step;
                    if (verdict == vsched::V_DEADLOCK) throw Fail{tag + " every unfinished thread spins and no running thread can release what they wait for (" + std::to_string(sch.step) + " steps)"};
                    if (verdict == vsched::V_BUDGET) {
                        res.inconclusive = true;
                        return res;
                    }
                    std::vector<Rec> log;
                    for (int id = 0; id < n; id++) {
                        if (logs[id].size() != s.threads[id].size()) throw Fail{tag + " thread " + std::to_string(id) + " did not finish its inserts"};
                        log.insert(log.end(), logs[id].begin(), logs[id].end());
                    }
                    bool ch = false, big = false;
                    for (auto& t : s.threads)
                        for (auto& p : t) ch = ma.unite(p.first, p.second, &big) || ch;
                    wrote(ch, big);
                    for (auto& x : log)
                        for (auto& y : log)
                            if (x.tid != y.tid && x.inv < y.resp && y.inv < x.resp) {
                                res.overlap = true;
                                if (ma.related(x.p.first, y.p.first)) res.cycleRace = true;
                            }
                    break;
                }
                case S_ALL: {
                    A->insertAll(*B);
                    bool ch = false, big = false;
                    for (auto& cl : mb.classes())
                        for (auto x : cl.second) ch = ma.unite(cl.first, x, &big) || ch;
                    wrote(ch, big);
                    res.usedAll = true;
                    // the argument is unchanged
                    readBattery(*B, mb, c.probe, 0, 1, tag + " argument of insertAll:");
                    break;
                }
                case S_EXT: {
                    // documented post-condition: this relation additionally holds every class of `other` that shares an
                    // element with it; `other` additionally holds everything this relation knew before
                    const EqModel a0 = ma, b0 = mb;
                    A->extendAndInsert(*B);
                    bool ch = false, big = false;
                    if (!(a0.parent.empty() && b0.parent.empty())) {
                        for (auto& cl : b0.classes()) {
                            bool touches = false;
                            for (auto x : cl.second) touches = touches || a0.has(x);
                            if (touches)
                                for (auto x : cl.second) ch = ma.unite(cl.first, x, &big) || ch;
                        }
                        for (auto& cl : a0.classes())
                            for (auto x : cl.second) mb.unite(cl.first, x);
                    }
                    wrote(ch, big);
                    res.usedExt = true;
                    readBattery(*B, mb, c.probe, 0, 2, tag + " `other` after extendAndInsert:");
                    didRead(readBattery(*A, ma, c.probe, 0, 2, tag + " `this` after extendAndInsert:"));
                    break;
                }
                case S_CLR: {
                    A->clear();
                    bool ch = !ma.parent.empty();
                    ma = EqModel();
                    wrote(ch, false);
                    res.usedClear = true;
                    break;
                }
                case S_CLRB: {
                    B->clear();
                    mb = EqModel();
                    break;
                }
                case S_READ:
                default: {
                    didRead(readBattery(*A, ma, c.probe, s.a < 0 || s.a > 6 ? 0 : s.a, s.b, tag));
                    break;
                }
            }
        }
        // (7) whatever happened before, the final state is the closure of what was inserted
        didRead(readBattery(*A, ma, c.probe, 0, 3, "final read of A:"));
        readBattery(*B, mb, c.probe, 0, 3, "final read of B:");
    } catch (const Fail& f) {
        res.ok = false;
        res.msg = f.msg;
    }
    return res;
}

// ---- PiggyList alone ---------------------------------------------------------------------------------------------------
static Result runPiggy(const Case& c, vsched::ChoiceSource* src) {
    Result res;
    const int n = (int)c.pops.size();
    try {
        struct Done {
            int tid;
            PiggyOp op;
            std::size_t idx;
            std::uint64_t inv, resp;
        };
        std::vector<Done> log;
        std::vector<std::vector<Done>> logs(n);   // per thread (see runEqrel)
        std::size_t total = 0;
        for (auto& t : c.pops) total += t.size();
        for (int id = 0; id < n; id++) logs[id].reserve(c.pops[id].size());
        auto mergeLogs = [&] {
            // merged in invocation order
            for (auto& l : logs) log.insert(log.end(), l.begin(), l.end());
            std::stable_sort(log.begin(), log.end(), [](const Done& a, const Done& b) { return a.inv < b.inv; });
        };
        if (!c.random) {
            souffle::PiggyList<std::int32_t> pl((std::size_t)c.bits);
            vsched::Scheduler sch(n, src, 40000);
            sch.onPoint = [&](int tid, int kind, const void*) { res.sig = res.sig * 1099511628211ull + (std::uint64_t)(tid * 8 + kind + 1); };
            std::vector<std::function<void()>> bodies;
            for (int id = 0; id < n; id++)
                bodies.push_back([&, id] {
                    for (auto& o : c.pops[id]) {
                        logs[id].push_back(Done{id, o, 0, sch.step, 0});
                        std::size_t idx;
                        if (o.kind == 'N') {
                            idx = pl.createNode();
                            vsched::Scheduler::yieldPoint();
                            pl.get(idx) = o.val;
                        } else
                            idx = pl.append(o.val);
                        logs[id].back().idx = idx;
                        logs[id].back().resp = sch.step;
                    }
                });
            auto verdict = n ? sch.run(bodies) : vsched::V_OK;
            res.steps = sch.step;
            if (verdict == vsched::V_DEADLOCK) throw Fail{"PiggyList: every unfinished thread spins on the allocation lock"};
            if (verdict == vsched::V_BUDGET) {
                res.inconclusive = true;
                return res;
            }
            mergeLogs();
            if (log.size() != total) throw Fail{"PiggyList: a thread did not finish"};
            if (pl.size() != total) throw Fail{"PiggyList: size() = " + std::to_string(pl.size()) + " after " + std::to_string(total) + " appends"};
            std::vector<char> seen(total, 0);
            std::vector<std::size_t> lastIdx(n, 0);
            std::vector<char> any(n, 0);
            for (auto& d : log) {
                if (d.idx >= total) throw Fail{"PiggyList: append returned index " + std::to_string(d.idx) + " >= number of appends " + std::to_string(total)};
                if (seen[d.idx]) throw Fail{"PiggyList: index " + std::to_string(d.idx) + " handed out twice"};
                seen[d.idx] = 1;
                if (any[d.tid] && d.idx <= lastIdx[d.tid]) throw Fail{"PiggyList: indices handed to one thread do not increase"};
                any[d.tid] = 1;
                lastIdx[d.tid] = d.idx;
                if (pl.get(d.idx) != d.op.val) throw Fail{"PiggyList: get(" + std::to_string(d.idx) + ") = " + std::to_string(pl.get(d.idx)) + ", the element stored there was " + std::to_string(d.op.val)};
            }
            std::vector<std::int32_t> byIdx(total);
            for (auto& d : log) byIdx[d.idx] = d.op.val;
            std::size_t k = 0;
            for (auto it = pl.begin(); it != pl.end(); it++, k++) {
                if (k >= total) throw Fail{"PiggyList: iteration yields more elements than were appended"};
                if (*it != byIdx[k]) throw Fail{"PiggyList: iteration position " + std::to_string(k) + " yields " + std::to_string(*it) + ", expected " + std::to_string(byIdx[k])};
            }
            if (k != total) throw Fail{"PiggyList: iteration yields " + std::to_string(k) + " of " + std::to_string(total) + " elements"};
            // growth race: overlapping appends of which one crossed a block boundary
            for (auto& x : log)
                for (auto& y : log)
                    if (x.tid != y.tid && x.inv < y.resp && y.inv < x.resp) {
                        res.overlap = true;
                        std::size_t cap = (std::size_t)1 << c.bits, acc = cap;
                        bool boundary = x.idx == 0;
                        while (acc <= x.idx) {
                            if (acc == x.idx) boundary = true;
                            cap <<= 1;
                            acc += cap;
                        }
                        if (boundary) res.piggyGrowthRace = true;
                    }
            // clear() and re-use
            pl.clear();
            if (pl.size() != 0) throw Fail{"PiggyList: size() != 0 after clear()"};
            if (pl.begin() != pl.end()) throw Fail{"PiggyList: begin() != end() after clear()"};
            for (std::size_t i = 0; i < total && i < 5; i++) {
                std::size_t idx = pl.append((std::int32_t)(1000 + i));
                if (idx != i) throw Fail{"PiggyList: append after clear() returned index " + std::to_string(idx) + ", expected " + std::to_string(i)};
            }
            for (std::size_t i = 0; i < total && i < 5; i++)
                if (pl.get(i) != (std::int32_t)(1000 + i)) throw Fail{"PiggyList: wrong element after clear() and re-use"};
        } else {
            souffle::RandomInsertPiggyList<std::int32_t> pl((std::size_t)c.bits);
            vsched::Scheduler sch(n, src, 40000);
            sch.onPoint = [&](int tid, int kind, const void*) { res.sig = res.sig * 1099511628211ull + (std::uint64_t)(tid * 8 + kind + 1); };
            std::vector<std::function<void()>> bodies;
            for (int id = 0; id < n; id++)
                bodies.push_back([&, id] {
                    for (auto& o : c.pops[id]) {
                        logs[id].push_back(Done{id, o, (std::size_t)o.idx, sch.step, 0});
                        vsched::Scheduler::yieldPoint();
                        pl.insertAt((std::size_t)o.idx, o.val);
                        logs[id].back().resp = sch.step;
                    }
                });
            auto verdict = n ? sch.run(bodies) : vsched::V_OK;
            res.steps = sch.step;
            if (verdict == vsched::V_DEADLOCK) throw Fail{"RandomInsertPiggyList: every unfinished thread spins on the allocation lock"};
            if (verdict == vsched::V_BUDGET) {
                res.inconclusive = true;
                return res;
            }
            mergeLogs();
            if (log.size() != total) throw Fail{"RandomInsertPiggyList: a thread did not finish"};
            if (pl.size() != total) throw Fail{"RandomInsertPiggyList: size() = " + std::to_string(pl.size()) + " after " + std::to_string(total) + " insertAt calls on distinct indices"};
            for (auto& d : log)
                if (pl.get(d.idx) != d.op.val) throw Fail{"RandomInsertPiggyList: get(" + std::to_string(d.idx) + ") = " + std::to_string(pl.get(d.idx)) + ", inserted " + std::to_string(d.op.val)};
            auto blockOf = [&](std::size_t i) { return 63 - __builtin_clzll(i + ((std::size_t)1 << c.bits)); };
            for (auto& x : log)
                for (auto& y : log)
                    if (x.tid != y.tid && x.inv < y.resp && y.inv < x.resp) {
                        res.overlap = true;
                        if (blockOf(x.idx) == blockOf(y.idx)) res.piggyGrowthRace = true;
                    }
            pl.clear();
            if (pl.size() != 0) throw Fail{"RandomInsertPiggyList: size() != 0 after clear()"};
        }
    } catch (const Fail& f) {
        res.ok = false;
        res.msg = f.msg;
    }
    return res;
}

static Result runCase(const Case& c, vsched::ChoiceSource* overrideSrc = nullptr) {
    if (c.piggy) {
        std::uint64_t nops = 0;
        for (auto& t : c.pops) nops += t.size();
        auto own = c.ss.make((int)c.pops.size(), 5 * (nops ? nops : 1));
        return runPiggy(c, overrideSrc ? overrideSrc : own.get());
    }
    return runEqrel(c, overrideSrc);
}

static void account(hc::Stats& st, const Case& c, const Result& r) {
    st.evals++;
    if (r.inconclusive) {
        st.inconclusive["step_budget"]++;
        return;
    }
    st.extra["hook_steps"] += r.steps;
    if (c.piggy) {
        st.cls(c.random ? "kind=random_insert_piggylist" : "kind=piggylist");
        if (r.overlap) st.cls("piggy_appends_interleaved");
        if (r.piggyGrowthRace) st.cls("piggy_interleaved_append_at_block_boundary");
        if (r.overlap) {
            st.nt(c.text());
            if (r.piggyGrowthRace) st.sample(c.text(), 1);
        } else
            st.cls("trivial");
        return;
    }
    st.cls("kind=eqrel");
    if (c.fresh) st.cls("fresh_relation_objects");
    if (r.stalePattern) st.cls("read_write_read_on_built_cache");
    if (r.bigMerge) st.cls("stale_pattern_with_merge_of_two_classes_of_size>=2");
    if (r.overlap) st.cls("concurrent_inserts_interleaved");
    if (r.cycleRace) st.cls("interleaved_inserts_into_one_class");
    if (r.usedAll) st.cls("uses_insertAll");
    if (r.usedExt) st.cls("uses_extendAndInsert");
    if (r.usedClear) st.cls("uses_clear");
    if (r.stalePattern || r.cycleRace) {
        st.nt(c.text());
        if (r.bigMerge && r.cycleRace) st.sample(c.text(), 4);
    } else
        st.cls("trivial");
}

// known finding F4: a lookup bound to the value -2^31 is taken for "unbound"
static int probeF4() {
    ER r;
    r.insert(MINV, 7);
    r.insert(1, 2);
    int hit = 0;
    // anterior bound to -2^31, posterior unbound: expected exactly the pairs (-2^31, _)
    for (auto it = r.lower_bound({MINV, MINV}); it != r.end(); ++it)
        if ((*it)[0] != MINV) hit = 1;
    // both bound: the contained pair (-2^31, 7) must be found
    if (r.contains(MINV, 7) && r.lower_bound({MINV, 7}) == r.end()) hit = 1;
    return hit;
}

static std::vector<std::int32_t> parseVals(const std::string& s) {
    std::vector<std::int32_t> v;
    std::size_t pos = 0;
    while (pos <= s.size()) {
        std::size_t k = s.find(',', pos);
        std::string w = s.substr(pos, k == std::string::npos ? std::string::npos : k - pos);
        if (!w.empty()) v.push_back((std::int32_t)std::strtol(w.c_str(), nullptr, 10));
        if (k == std::string::npos) break;
        pos = k + 1;
    }
    return v;
}

int main(int argc, char** argv) {
    hc::Args args = hc::parseArgs(argc, argv);
    hc::Stats st;
    hc::Pending pending(args.pending);
    if (!args.replay.empty()) {
        Case c = Case::parse(hc::readFile(args.replay));
        Result r = runCase(c);
        if (!r.ok) {
            std::cout << "FAIL: " << r.msg << "\n";
            return 1;
        }
        std::cout << (r.inconclusive ? "INCONCLUSIVE\n" : "PASS\n");
        return 0;
    }
    if (args.mode == "probe") {
        int f4 = probeF4();
        st.extra["known_F4"] = f4;
        if (f4) std::cout << "KNOWN:F4 a lookup bound to -2147483648 is treated as unbound (spurious or missing pairs)\n";
        if (!args.out.empty()) st.write(args.out);
        return 0;
    }
    if (args.mode == "dfs") {
        // eqrel: `setup` pairs inserted sequentially, then every assignment of pairs over vals x vals to threads x 1 insert,
        // x every schedule up to the preemption bound.  piggy (--piggy 1): threads x ops appends with --bits.
        const int nthreads = (int)args.num("threads", 2), bound = (int)args.num("bound", 1), nops = (int)args.num("ops", 1);
        const std::uint64_t maxSchedules = (std::uint64_t)args.num("max", 3000000);
        const bool piggy = args.num("piggy", 0) != 0;
        std::uint64_t schedules = 0;
        bool complete = true;
        std::vector<Case> cases;
        if (piggy) {
            for (int random = 0; random < 2; random++) {
                Case c;
                c.piggy = true;
                c.bits = (int)args.num("bits", 0);
                c.random = random;
                std::int32_t v = 1;
                std::int64_t idx = 0;
                for (int t = 0; t < nthreads; t++) {
                    std::vector<PiggyOp> l;
                    for (int o = 0; o < nops; o++, v++) l.push_back(random ? PiggyOp{'X', idx++, v} : PiggyOp{(o + t) % 2 ? 'N' : 'A', 0, v});
                    c.pops.push_back(l);
                }
                cases.push_back(c);
            }
        } else {
            auto it = args.kv.find("vals");
            std::vector<std::int32_t> vals = parseVals(it == args.kv.end() ? "0,1,2,3" : it->second);
            auto its = args.kv.find("setup");
            std::vector<std::int32_t> su = parseVals(its == args.kv.end() ? "0,1" : its->second);
            std::vector<Pair> alphabet;
            for (auto a : vals)
                for (auto b : vals) alphabet.push_back({a, b});
            std::vector<std::size_t> idx(nthreads, 0);
            while (true) {
                Case c;
                for (auto v : vals) c.probe.push_back(v);
                for (std::size_t i = 0; i + 1 < su.size(); i += 2) {
                    Step s;
                    s.kind = S_INS;
                    s.a = su[i];
                    s.b = su[i + 1];
                    c.steps.push_back(s);
                }
                Step rd;
                rd.kind = S_READ;
                rd.a = 1;
                c.steps.push_back(rd);
                Step p;
                p.kind = S_PAR;
                for (int t = 0; t < nthreads; t++) p.threads.push_back({alphabet[idx[t]]});
                c.steps.push_back(p);
                cases.push_back(c);
                int k = 0;
                while (k < nthreads && ++idx[k] == alphabet.size()) idx[k++] = 0;
                if (k == nthreads) break;
            }
        }
        for (auto& c : cases) {
            vsched::DfsSource dfs(bound);
            do {
                dfs.beginRun();
                Result r = runCase(c, &dfs);
                schedules++;
                Case rc = c;
                std::vector<std::uint8_t> bytes;
                for (std::size_t i = 0; i < dfs.depth; i++) bytes.push_back((std::uint8_t)dfs.stack[i].chosen);
                if (rc.piggy) {
                    rc.ss.bytes = bytes;
                    rc.ss.tail = 0;
                } else
                    for (auto& s : rc.steps)
                        if (s.kind == S_PAR) {
                            s.ss.bytes = bytes;
                            s.ss.tail = 0;
                        }
                account(st, rc, r);
                if (!r.ok) {
                    st.violations.push_back({rc.text(), r.msg});
                    goto out;
                }
                if (schedules >= maxSchedules) {
                    complete = false;
                    goto out;
                }
            } while (dfs.nextSchedule());
        }
    out:
        st.extra["schedules"] = schedules;
        st.extra["exhaustive"] = complete && st.violations.empty();
        st.extra["dfs_threads"] = nthreads;
        st.extra["dfs_preemption_bound"] = bound;
        st.extra["dfs_piggy"] = piggy;
        if (!args.out.empty()) st.write(args.out);
        return st.violations.empty() ? 0 : 1;
    }
    hc::setRcParams(args);
    st.extra["known_F4"] = probeF4();
    Case lastFail;
    std::string lastMsg;
    std::uint64_t counter = 0;
    bool ok = rc::check("eqrel = closure of inserted pairs", [&] {
        Case c;
        auto genSched = [&](c2x::SchedSpec& ss) {
            ss.tail = *hc::R<std::uint64_t>(1, 1u << 30);
            if (*hc::R(0, 2) == 0)
                ss.pct = *hc::R(1, 6);
            else {
                ss.bytes = *rc::gen::container<std::vector<std::uint8_t>>(rc::gen::arbitrary<std::uint8_t>());
                ss.den = 2 << *hc::R(0, 5);
            }
        };
        if (*hc::R(0, 5) == 0) {
            // ---- PiggyList alone
            c.piggy = true;
            c.random = *hc::R(0, 3) == 0;
            c.bits = *hc::R(1, 4);
            const int n = *hc::R(2, 7);
            if (c.random) {
                // distinct indices, dealt to the threads in generated order
                const int total = *hc::R(n, 4 * n + 1);
                const int span = total + *hc::R(0, 12);
                std::vector<std::int64_t> idx;
                for (int i = 0; i < span; i++) idx.push_back(i);
                for (int i = span - 1; i > 0; i--) std::swap(idx[i], idx[*hc::R(0, i + 1)]);
                c.pops.resize(n);
                for (int i = 0; i < total; i++) c.pops[i < n ? i : *hc::R(0, n)].push_back(PiggyOp{'X', idx[i], *hc::R(-1000, 1000)});
            } else {
                for (int i = 0; i < n; i++) {
                    std::vector<PiggyOp> l;
                    const int k = *hc::R(1, 6);
                    for (int j = 0; j < k; j++) l.push_back(PiggyOp{*hc::R(0, 3) == 0 ? 'N' : 'A', 0, *hc::R(-1000, 1000)});
                    c.pops.push_back(l);
                }
            }
            genSched(c.ss);
        } else {
            // ---- eqrel history
            c.fresh = *hc::R(0, 8) == 0;
            std::vector<std::int32_t> pool;
            const int pk = *hc::R(0, 4);
            const int w = *hc::R(3, 11);
            if (pk <= 1)
                for (int i = 0; i < w; i++) pool.push_back(i);
            else if (pk == 2)
                for (int i = 0; i < w; i++) pool.push_back(i - 3);
            else {
                static const std::int32_t ext[] = {2147483647, -2147483647, 0, -1, INT32_MIN, 1, 2, 3, 65535, 65536};
                for (int i = 0; i < w; i++) pool.push_back(ext[*hc::R(0, 10)]);
            }
            auto el = [&] { return pool[*hc::R(0, (int)pool.size())]; };
            auto pr = [&] { return Pair{el(), el()}; };
            for (auto e : pool)
                if (e != MINV) c.probe.push_back(e);
            c.probe.push_back(*hc::R(100, 120));   // an element that is (almost) never mentioned
            std::sort(c.probe.begin(), c.probe.end());
            c.probe.erase(std::unique(c.probe.begin(), c.probe.end()), c.probe.end());
            const int ns = *hc::R(3, 13);
            for (int i = 0; i < ns; i++) {
                Step s;
                const int k = *hc::R(0, 100);
                if (k < 30) {
                    s.kind = S_INS;
                    auto p = pr();
                    s.a = p.first;
                    s.b = p.second;
                } else if (k < 42) {
                    s.kind = S_INSB;
                    auto p = pr();
                    s.a = p.first;
                    s.b = p.second;
                } else if (k < 62) {
                    s.kind = S_PAR;
                    static const int nthr[] = {1, 2, 2, 2, 2, 3, 3, 3, 4, 4, 5, 6, 7, 8};
                    const int n = nthr[*hc::R(0, 14)];
                    const int maxOps = n <= 4 ? 4 : 3;
                    for (int t = 0; t < n; t++) {
                        std::vector<Pair> l;
                        const int m = *hc::R(1, maxOps);
                        for (int j = 0; j < m; j++) l.push_back(pr());
                        s.threads.push_back(l);
                    }
                    genSched(s.ss);
                } else if (k < 68)
                    s.kind = S_ALL;
                else if (k < 75)
                    s.kind = S_EXT;
                else if (k < 78)
                    s.kind = S_CLR;
                else if (k < 80)
                    s.kind = S_CLRB;
                else {
                    s.kind = S_READ;
                    s.a = *hc::R(0, 7);
                    s.b = *hc::R(0, 12);
                }
                c.steps.push_back(s);
            }
        }
        pending.set(c.text());
        Result r = runCase(c);
        if (r.ok && !r.inconclusive && (++counter % 256) == 0) {
            Result r2 = runCase(c);
            if (r2.sig != r.sig || r2.ok != r.ok) st.inconclusive["nondeterministic_reexecution"]++;
        }
        pending.clear();
        account(st, c, r);
        if (!r.ok) {
            lastFail = c;
            lastMsg = r.msg;
        }
        RC_ASSERT(r.ok);
    });
    if (!ok) st.violations.push_back({lastFail.text(), lastMsg});
    if (!args.out.empty()) st.write(args.out);
    return ok ? 0 : 1;
}
