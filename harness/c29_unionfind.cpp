// C29 -- lock-free union-find (souffle::DisjointSet) is linearizable; parent links never form a cycle.
#include "hcommon.h"
#include "vsched.h"
#include <algorithm>
#include <numeric>
#include "souffle/utility/ParallelUtil.h"
#include "souffle/datastructure/LambdaBTree.h"
// the DisjointSet allocates a 512 KB block on first use, which costs ~25 ms per case under ASan; the harness keeps one
// instance and rewinds its node counter between cases (every node block is re-initialised by makeNode)
#include "souffle/datastructure/PiggyList.h"
#include "souffle/datastructure/UnionFind.h"
struct C29Tag {};
namespace souffle {
template <typename TupleType>
class EquivalenceRelation;
// DisjointSet befriends every EquivalenceRelation<T>; this specialisation only rewinds the node counter
template <>
class EquivalenceRelation<C29Tag> {
public:
    static void rewind(DisjointSet& ds) {
        ds.a_blocks.m_size = 0;
    }
};
}  // namespace souffle

using namespace souffle;

enum OpKind { O_UNION = 0, O_FIND = 1, O_SAME = 2 };
struct Op {
    int kind, a, b;
};

struct Case {
    int nodes = 2;
    std::vector<std::pair<int, int>> setup;   // unions performed sequentially before the threads start
    std::vector<std::vector<Op>> ops;
    std::vector<std::uint8_t> sched;
    std::uint64_t tail = 0;
    std::string text() const {
        std::ostringstream os;
        os << "c29 nodes=" << nodes << "\nsetup:";
        for (auto& p : setup) os << " " << p.first << "," << p.second;
        os << "\n";
        for (auto& t : ops) {
            os << "t:";
            for (auto& o : t) os << " " << "UFS"[o.kind] << o.a << "," << o.b;
            os << "\n";
        }
        os << "schedule:";
        for (auto b : sched) os << " " << (int)b;
        os << "\ntail: " << tail << "\n";
        return os.str();
    }
    static Case parse(const std::string& s) {
        Case c;
        std::istringstream is(s);
        std::string line;
        while (std::getline(is, line)) {
            std::istringstream ls(line);
            std::string w;
            ls >> w;
            if (w == "c29") {
                std::string kv;
                while (ls >> kv)
                    if (kv.rfind("nodes=", 0) == 0) c.nodes = std::atoi(kv.c_str() + 6);
            } else if (w == "setup:") {
                std::string p;
                while (ls >> p) {
                    auto k = p.find(',');
                    c.setup.push_back({std::atoi(p.substr(0, k).c_str()), std::atoi(p.substr(k + 1).c_str())});
                }
            } else if (w == "t:") {
                std::vector<Op> t;
                std::string p;
                while (ls >> p) {
                    Op o;
                    o.kind = p[0] == 'U' ? O_UNION : p[0] == 'F' ? O_FIND : O_SAME;
                    auto k = p.find(',');
                    o.a = std::atoi(p.substr(1, k - 1).c_str());
                    o.b = std::atoi(p.substr(k + 1).c_str());
                    t.push_back(o);
                }
                c.ops.push_back(t);
            } else if (w == "schedule:") {
                int x;
                while (ls >> x) c.sched.push_back((std::uint8_t)x);
            } else if (w == "tail:") {
                ls >> c.tail;
            }
        }
        return c;
    }
};

struct Result {
    bool ok = true, inconclusive = false;
    std::string msg;
    bool overlap = false;       // a union ran interleaved with another thread's operation
    bool sharedRoot = false;    // two overlapping unions touched a common class
    std::uint64_t steps = 0;
};

// naive partition model
struct Model {
    std::vector<int> p;
    explicit Model(int n) : p(n) {
        std::iota(p.begin(), p.end(), 0);
    }
    int find(int x) {
        while (p[x] != x) x = p[x];
        return x;
    }
    void unite(int a, int b) {
        a = find(a);
        b = find(b);
        if (a != b) p[a] = b;
    }
    bool same(int a, int b) {
        return find(a) == find(b);
    }
};

struct Rec {
    int tid;
    Op op;
    std::uint64_t inv, resp;
    long ret;
};

static Result runCase(const Case& c, vsched::ChoiceSource* src) {
    Result res;
    const int n = (int)c.ops.size();
    const int N = c.nodes;
    static DisjointSet ds;
    souffle::EquivalenceRelation<C29Tag>::rewind(ds);
    for (int i = 0; i < N; i++) ds.makeNode();
    for (auto& p : c.setup) ds.unionNodes(p.first, p.second);
    std::vector<Rec> log;
    std::string failure;
    vsched::Scheduler sch(n, src, 4000);
    sch.killOnBudget = true;
    std::vector<rank_t> lastRank(N, 0);
    sch.onPoint = [&](int, int, const void*) {
        // all other threads are parked: inspect the forest
        for (int i = 0; i < N && failure.empty(); i++) {
            block_t blk = ds.get(i).load();
            rank_t r = DisjointSet::b2r(blk);
            int x = i;
            int hops = 0;
            while (true) {
                block_t bx = ds.get(x).load();
                int px = (int)DisjointSet::b2p(bx);
                if (px < 0 || px >= N) {
                    failure = "parent link of node " + std::to_string(x) + " points outside the node range";
                    break;
                }
                if (px == x) break;
                x = px;
                if (++hops > N) {
                    failure = "parent links form a cycle reachable from node " + std::to_string(i);
                    break;
                }
            }
            (void)r;
        }
        if (!failure.empty()) sch.kill();
    };
    std::vector<std::function<void()>> bodies;
    for (int id = 0; id < n; id++) {
        bodies.push_back([&, id] {
            for (const Op& o : c.ops[id]) {
                Rec r{id, o, sch.step, 0, 0};
                std::size_t idx = log.size();
                log.push_back(r);
                long ret = 0;
                if (o.kind == O_UNION)
                    ds.unionNodes(o.a, o.b);
                else if (o.kind == O_FIND)
                    ret = (long)ds.findNode(o.a);
                else
                    ret = ds.sameSet(o.a, o.b) ? 1 : 0;
                log[idx].resp = sch.step;
                log[idx].ret = ret;
            }
        });
    }
    auto verdict = sch.run(bodies);
    res.steps = sch.step;
    if (!failure.empty()) {
        res.ok = false;
        res.msg = failure;
        return res;
    }
    if (verdict != vsched::V_OK) {
        // no invariant violation was seen but the operations did not finish within the step budget
        res.ok = false;
        res.msg = "operations did not terminate within the step budget (" + std::to_string(sch.step) + " hook steps)";
        return res;
    }
    // final partition == closure of setup + all unions
    Model all(N);
    for (auto& p : c.setup) all.unite(p.first, p.second);
    for (auto& r : log)
        if (r.op.kind == O_UNION) all.unite(r.op.a, r.op.b);
    for (int i = 0; i < N && res.ok; i++)
        for (int j = 0; j < N && res.ok; j++) {
            bool got = ds.sameSet(i, j);
            if (got != all.same(i, j)) {
                res.ok = false;
                res.msg = "final partition wrong: sameSet(" + std::to_string(i) + "," + std::to_string(j) + ")=" + std::to_string(got);
            }
        }
    // per-call linearizability windows (the partition only coarsens)
    for (auto& r : log) {
        if (!res.ok) break;
        if (r.op.kind == O_UNION) continue;
        Model upper(N), lower(N);
        for (auto& p : c.setup) {
            upper.unite(p.first, p.second);
            lower.unite(p.first, p.second);
        }
        for (auto& u : log) {
            if (u.op.kind != O_UNION) continue;
            if (u.inv <= r.resp) upper.unite(u.op.a, u.op.b);   // invoked before the call returned
            if (u.resp < r.inv || (u.tid == r.tid && u.inv < r.inv)) lower.unite(u.op.a, u.op.b);   // completed before invocation
        }
        if (r.op.kind == O_SAME) {
            if (r.ret && !upper.same(r.op.a, r.op.b)) {
                res.ok = false;
                res.msg = "sameSet returned true for elements no union invoked so far relates";
            } else if (!r.ret && lower.same(r.op.a, r.op.b)) {
                res.ok = false;
                res.msg = "sameSet returned false although the elements were united before the call was invoked";
            }
        } else {
            if (r.ret < 0 || r.ret >= N || !upper.same(r.op.a, (int)r.ret)) {
                res.ok = false;
                res.msg = "findNode returned a node outside the element's class";
            }
        }
    }
    // classification
    for (auto& u : log) {
        if (u.op.kind != O_UNION) continue;
        for (auto& o : log) {
            if (o.tid == u.tid) continue;
            if (o.inv < u.resp && u.inv < o.resp) {
                res.overlap = true;
                if (o.op.kind == O_UNION && (all.same(o.op.a, u.op.a))) res.sharedRoot = true;
            }
        }
    }
    return res;
}

static void account(hc::Stats& st, const Case& c, const Result& r) {
    st.evals++;
    if (r.overlap) st.cls("union_interleaved_with_other_thread");
    if (r.sharedRoot) st.cls("overlapping_unions_on_one_class");
    if (r.overlap) {
        st.nt(c.text());
        if (r.sharedRoot) st.sample(c.text());
    } else
        st.cls("trivial");
}

int main(int argc, char** argv) {
    hc::Args args = hc::parseArgs(argc, argv);
    hc::Stats st;
    hc::Pending pending(args.pending);
    if (!args.replay.empty()) {
        Case c = Case::parse(hc::readFile(args.replay));
        vsched::ByteSource src(c.sched, c.tail);
        Result r = runCase(c, &src);
        if (!r.ok) {
            std::cout << "FAIL: " << r.msg << "\n";
            return 1;
        }
        std::cout << "PASS\n";
        return 0;
    }
    if (args.mode == "dfs") {
        // every pair of single operations (2 threads x 1 op) over `nodes` nodes, with every setup of <=1 prior union,
        // x every schedule up to the preemption bound
        const int N = (int)args.num("nodes", 3), bound = (int)args.num("bound", 99), nthreads = (int)args.num("threads", 2);
        const std::uint64_t maxSchedules = (std::uint64_t)args.num("max", 5000000);
        std::vector<Op> alphabet;
        for (int a = 0; a < N; a++)
            for (int b = 0; b < N; b++)
                if (a != b) alphabet.push_back({O_UNION, a, b});
        for (int a = 0; a < N; a++) alphabet.push_back({O_FIND, a, 0});
        for (int a = 0; a < N; a++)
            for (int b = a + 1; b < N; b++) alphabet.push_back({O_SAME, a, b});
        std::vector<std::vector<std::pair<int, int>>> setups;
        setups.push_back({});
        for (int a = 0; a < N; a++)
            for (int b = a + 1; b < N; b++) setups.push_back({{a, b}});
        std::uint64_t schedules = 0;
        bool complete = true;
        std::vector<std::size_t> idx(nthreads, 0);
        for (auto& su : setups) {
            std::fill(idx.begin(), idx.end(), 0);
            while (true) {
                Case c;
                c.nodes = N;
                c.setup = su;
                bool anyUnion = false;
                for (int t = 0; t < nthreads; t++) {
                    c.ops.push_back({alphabet[idx[t]]});
                    if (alphabet[idx[t]].kind == O_UNION) anyUnion = true;
                }
                if (anyUnion) {
                    vsched::DfsSource dfs(bound);
                    do {
                        dfs.beginRun();
                        Result r = runCase(c, &dfs);
                        schedules++;
                        Case rc = c;
                        for (std::size_t i = 0; i < dfs.depth; i++) rc.sched.push_back((std::uint8_t)dfs.stack[i].chosen);
                        account(st, rc, r);
                        if (!r.ok) {
                            st.violations.push_back({rc.text(), r.msg});
                            goto out;
                        }
                        if (schedules >= maxSchedules) {
                            complete = false;
                            goto out;
                        }
                    } while (dfs.nextSchedule());
                }
                int k = 0;
                while (k < nthreads && ++idx[k] == alphabet.size()) idx[k++] = 0;
                if (k == nthreads) break;
            }
        }
    out:
        st.extra["schedules"] = schedules;
        st.extra["exhaustive"] = complete && st.violations.empty();
        st.extra["dfs_nodes"] = N;
        st.extra["dfs_threads"] = nthreads;
        st.extra["dfs_preemption_bound"] = bound;
        if (!args.out.empty()) st.write(args.out);
        return st.violations.empty() ? 0 : 1;
    }
    hc::setRcParams(args);
    Case lastFail;
    std::string lastMsg;
    bool ok = rc::check("union-find linearizability and forest shape", [&] {
        Case c;
        c.nodes = *hc::R(2, 9);
        const int N = c.nodes;
        auto genOp = rc::gen::map(rc::gen::tuple(hc::R(0, 10), hc::R(0, N), hc::R(0, N)), [](std::tuple<int, int, int> t) {
            int k = std::get<0>(t);
            return Op{k < 6 ? O_UNION : k < 8 ? O_FIND : O_SAME, std::get<1>(t), std::get<2>(t)};
        });
        const int ns = *hc::R(0, 4);
        for (int i = 0; i < ns; i++) c.setup.push_back({*hc::R(0, N), *hc::R(0, N)});
        const int n = *hc::R(2, 5);
        for (int i = 0; i < n; i++) {
            auto t = *rc::gen::resize(20, rc::gen::container<std::vector<Op>>(genOp));
            if (t.size() > 4) t.resize(4);
            if (t.empty()) t.push_back(*genOp);
            c.ops.push_back(t);
        }
        c.sched = *rc::gen::container<std::vector<std::uint8_t>>(rc::gen::arbitrary<std::uint8_t>());
        c.tail = *hc::R<std::uint64_t>(0, 1u << 30);
        pending.set(c.text());
        vsched::ByteSource src(c.sched, c.tail);
        Result r = runCase(c, &src);
        pending.clear();
        account(st, c, r);
        if (!r.ok) {
            lastFail = c;
            lastMsg = r.msg;
        }
        RC_ASSERT(r.ok);
    });
    if (!ok) st.violations.push_back({lastFail.text(), lastMsg});
    if (!args.out.empty()) st.write(args.out);
    return ok ? 0 : 1;
}
