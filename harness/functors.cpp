// user-defined (stateful) functors for the lattice check C12 (built into build/harness/libfunctors.so)
#include "souffle/RecordTable.h"
#include "souffle/SymbolTable.h"
extern "C" {
souffle::RamDomain lmax(souffle::SymbolTable*, souffle::RecordTable*, souffle::RamDomain a, souffle::RamDomain b) { return a > b ? a : b; }
souffle::RamDomain lmin(souffle::SymbolTable*, souffle::RecordTable*, souffle::RamDomain a, souffle::RamDomain b) { return a < b ? a : b; }
souffle::RamDomain lbor(souffle::SymbolTable*, souffle::RecordTable*, souffle::RamDomain a, souffle::RamDomain b) { return a | b; }
souffle::RamDomain lband(souffle::SymbolTable*, souffle::RecordTable*, souffle::RamDomain a, souffle::RamDomain b) { return a & b; }
}
