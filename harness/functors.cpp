// user-defined (stateful) functors for the lattice check C12 (built into build/harness/libfunctors.so)
#include "souffle/RecordTable.h"
#include "souffle/SymbolTable.h"
extern "C" {
souffle::RamDomain lmax(souffle::SymbolTable*, souffle::RecordTable*, souffle::RamDomain a, souffle::RamDomain b) { return a > b ? a : b; }
souffle::RamDomain lmin(souffle::SymbolTable*, souffle::RecordTable*, souffle::RamDomain a, souffle::RamDomain b) { return a < b ? a : b; }
souffle::RamDomain lbor(souffle::SymbolTable*, souffle::RecordTable*, souffle::RamDomain a, souffle::RamDomain b) { return a | b; }
souffle::RamDomain lband(souffle::SymbolTable*, souffle::RecordTable*, souffle::RamDomain a, souffle::RamDomain b) { return a & b; }
}

// C09 (exactly-once clause): a side-effecting stateless functor that appends its arguments to the file named by C09_LOG
#include <cstdint>
#include <cstdio>
#include <cstdlib>
#include <mutex>
extern "C" int32_t c09note(int32_t r, int32_t a, int32_t b, int32_t c, int32_t d, int32_t e, int32_t f, int32_t g, int32_t h) {
    static std::mutex m;
    static FILE* out = nullptr;
    std::lock_guard<std::mutex> guard(m);
    if (out == nullptr) {
        const char* p = std::getenv("C09_LOG");
        out = std::fopen(p != nullptr ? p : "/dev/null", "a");
        if (out == nullptr) return 0;
    }
    std::fprintf(out, "%d %d %d %d %d %d %d %d %d\n", r, a, b, c, d, e, f, g, h);
    std::fflush(out);
    return 0;
}
