// C27 -- Brie tries (souffle::Trie<1..4>) behave as tuple sets under concurrent insertion.
// Case = sequential set-up inserts, then 2-8 scheduled threads inserting tuple lists (own op_context each), then a quiescent
// read battery against a std::set model, then insertAll(other) and a second battery.
#include "hcommon.h"
#include "vsched.h"
#include "c2x_sources.h"
#include "souffle/datastructure/Brie.h"
#include <algorithm>
#include <array>
#include <climits>
#include <unordered_map>

using souffle::RamDomain;
static_assert(sizeof(RamDomain) == 4, "the harness assumes 32-bit RamDomain");

using Tup = std::array<std::int32_t, 4>;

// model order: lexicographic over the components read as uint32 -- the order in which a Trie enumerates (values are stored
// under their sign-extended 64-bit index). Only used as *the* reference order where all values are non-negative, i.e. where
// it coincides with the natural signed order; for mixed signs the oracle is order-free (see notes/C27.md).
struct TupLess {
    bool operator()(const Tup& a, const Tup& b) const {
        for (int i = 0; i < 4; i++) {
            auto x = (std::uint32_t)a[i], y = (std::uint32_t)b[i];
            if (x != y) return x < y;
        }
        return false;
    }
};
using Model = std::set<Tup, TupLess>;

static std::string tupStr(const Tup& t, int dim) {
    std::string s;
    for (int i = 0; i < dim; i++) s += (i ? "," : "") + std::to_string(t[i]);
    return s;
}
static Tup parseTup(const std::string& p) {
    Tup t{};
    std::size_t pos = 0;
    for (int i = 0; i < 4 && pos <= p.size(); i++) {
        std::size_t k = p.find(',', pos);
        std::string w = p.substr(pos, k == std::string::npos ? std::string::npos : k - pos);
        t[i] = (std::int32_t)std::strtol(w.c_str(), nullptr, 10);
        if (k == std::string::npos) break;
        pos = k + 1;
    }
    return t;
}

struct Case {
    int dim = 1;
    int ctx = 1;   // 1: every thread keeps one op_context for all its inserts; 0: a fresh context per insert
    int strict = 0;    // 1: judge also the probes that hit a recorded finding (used by the saved finding replays)
    std::vector<Tup> setup;               // inserted sequentially before the threads start
    std::vector<std::vector<Tup>> ops;    // per thread
    std::vector<Tup> other;               // content of a second trie merged in with insertAll after the threads joined
    std::vector<Tup> probes;              // membership / prefix / bound probes
    std::vector<int> parts;               // arguments of partition(n)
    c2x::SchedSpec ss;
    std::string text() const {
        std::ostringstream os;
        os << "c27 dim=" << dim << " ctx=" << ctx << (strict ? " strict=1" : "") << "\n";
        auto line = [&](const char* k, const std::vector<Tup>& v) {
            os << k;
            for (auto& t : v) os << " " << tupStr(t, dim);
            os << "\n";
        };
        line("setup:", setup);
        for (auto& t : ops) line("t:", t);
        line("other:", other);
        line("probes:", probes);
        os << "parts:";
        for (int p : parts) os << " " << p;
        os << "\n";
        ss.write(os);
        return os.str();
    }
    static Case parse(const std::string& s) {
        Case c;
        std::istringstream is(s);
        std::string line;
        auto tups = [](std::istringstream& ls) {
            std::vector<Tup> v;
            std::string p;
            while (ls >> p) v.push_back(parseTup(p));
            return v;
        };
        while (std::getline(is, line)) {
            std::istringstream ls(line);
            std::string w;
            ls >> w;
            if (w == "c27") {
                std::string kv;
                while (ls >> kv) {
                    if (kv.rfind("dim=", 0) == 0) c.dim = std::atoi(kv.c_str() + 4);
                    if (kv.rfind("ctx=", 0) == 0) c.ctx = std::atoi(kv.c_str() + 4);
                    if (kv.rfind("strict=", 0) == 0) c.strict = std::atoi(kv.c_str() + 7);
                }
            } else if (w == "setup:")
                c.setup = tups(ls);
            else if (w == "t:")
                c.ops.push_back(tups(ls));
            else if (w == "other:")
                c.other = tups(ls);
            else if (w == "probes:")
                c.probes = tups(ls);
            else if (w == "parts:") {
                int x;
                while (ls >> x) c.parts.push_back(x);
            } else
                c.ss.parseLine(w, ls);
        }
        if (c.dim < 1) c.dim = 1;
        if (c.dim > 4) c.dim = 4;
        return c;
    }
};

struct Result {
    bool ok = true, inconclusive = false;
    std::string msg;
    bool interleaved = false;    // two inserts of different threads interleaved their hook points on one sparse array / bitmap / trie node
    bool updateOverlap = false;  // a root-info / first-info update (P_STRUCT) fell inside another thread's insert on that object
    bool spin = false;           // a thread found root/first info locked by a concurrent update (P_SPIN)
    bool dupAcross = false;      // one new tuple was inserted by >= 2 threads
    bool mixedSign = false;
    std::uint64_t steps = 0, sig = 0;
};

struct Fail {
    std::string msg;
};

// ASan defaults for this harness (keys given in ASAN_OPTIONS still win): a small quarantine keeps re-using warm memory instead of
// faulting in fresh pages for every case, short allocation stacks make malloc/free cheap; detection is unaffected for the
// short-lived objects of one case. Measured 2.4x faster cases.
extern "C" const char* __asan_default_options() {
    return "quarantine_size_mb=16:malloc_context_size=5";
}

static bool g_strict = false;
static std::uint64_t g_exOutside = 0, g_exUbShape = 0;   // bound probes not judged (see battery)

// ---------------------------------------------------------------------------------------------------------------------
template <unsigned D>
struct Runner {
    using T = souffle::Trie<D>;
    using E = typename T::entry_type;
    using Ctx = typename T::op_context;
    using It = typename T::iterator;

    static E toE(const Tup& t) {
        E e{};
        for (unsigned i = 0; i < D; i++) e[i] = t[i];
        return e;
    }
    static Tup fromE(const E& e) {
        Tup t{};
        for (unsigned i = 0; i < D; i++) t[i] = e[i];
        return t;
    }
    static Tup norm(const Tup& t) {   // zero the unused components
        Tup r{};
        for (unsigned i = 0; i < D; i++) r[i] = t[i];
        return r;
    }
    static std::string str(const Tup& t) {
        return "(" + tupStr(t, D) + ")";
    }
    static bool small(const Tup& t) {
        for (unsigned i = 0; i < D; i++)
            if (t[i] < 0 || t[i] >= 64) return false;
        return true;
    }
    static bool nonNeg(const Tup& t) {
        for (unsigned i = 0; i < D; i++)
            if (t[i] < 0) return false;
        return true;
    }

    // failure texts are built lazily (W = callable returning std::string)
    // walk [b,e) with a step bound (a broken range must not run away)
    template <typename W>
    static std::vector<Tup> collect(It b, const It& e, std::size_t bound, W what) {
        std::vector<Tup> v;
        while (b != e) {
            if (v.size() > bound) throw Fail{what() + ": more than " + std::to_string(bound) + " elements enumerated (range does not end)"};
            v.push_back(fromE(*b));
            ++b;
        }
        return v;
    }

    // `got` must list exactly the tuples of `exp` (a set, in model order), each once
    template <typename W>
    static void sameSet(std::vector<Tup> got, const std::vector<Tup>& exp, W what) {
        std::sort(got.begin(), got.end(), TupLess());
        for (std::size_t i = 1; i < got.size(); i++)
            if (got[i] == got[i - 1]) throw Fail{what() + ": tuple " + str(got[i]) + " enumerated twice"};
        std::size_t i = 0, j = 0;
        while (i < got.size() || j < exp.size()) {
            if (j == exp.size() || (i < got.size() && TupLess()(got[i], exp[j]))) throw Fail{what() + ": spurious tuple " + str(got[i])};
            if (i == got.size() || TupLess()(exp[j], got[i])) throw Fail{what() + ": missing tuple " + str(exp[j])};
            i++, j++;
        }
    }

    template <unsigned K>
    static void boundaries(const T& trie, const Model& model, const Tup& probe, Ctx& ctx, const std::string& tag) {
        std::vector<Tup> exp;
        for (auto& t : model) {
            bool m = true;
            for (unsigned i = 0; i < K; i++) m = m && t[i] == probe[i];
            if (m) exp.push_back(t);
        }
        auto what = [&] { return tag + " getBoundaries<" + std::to_string(K) + ">" + str(probe); };
        auto whatS = [&] { return what() + " [shared ctx]"; };
        // once through the shared context (cached answers must equal fresh ones), once with a fresh context
        auto r1 = trie.template getBoundaries<K>(toE(probe), ctx);
        sameSet(collect(r1.begin(), r1.end(), model.size(), whatS), exp, whatS);
        auto r2 = trie.template getBoundaries<K>(toE(probe));
        sameSet(collect(r2.begin(), r2.end(), model.size(), what), exp, what);
        if (r1.empty() != exp.empty()) throw Fail{what() + ": range.empty() disagrees with the model"};
        if constexpr (K < D) boundaries<K + 1>(trie, model, probe, ctx, tag);
    }

    static void battery(const T& trie, const Model& model, const Case& c, const std::string& tag, bool full) {
        if (trie.empty() != model.empty()) throw Fail{tag + " empty() = " + std::to_string(trie.empty()) + ", model has " + std::to_string(model.size()) + " tuples"};
        if (trie.size() != model.size()) throw Fail{tag + " size() = " + std::to_string(trie.size()) + ", model has " + std::to_string(model.size()) + " tuples"};
        std::vector<Tup> exp(model.begin(), model.end());
        bool allNonNeg = true, allSmall = true;
        for (auto& t : exp) allNonNeg = allNonNeg && nonNeg(t), allSmall = allSmall && small(t);
        // (1)(3) iteration lists exactly the model, no duplicates; ascending where the order is unambiguous
        auto wIt = [&] { return tag + " iteration"; };
        auto seq = collect(trie.begin(), trie.end(), model.size(), wIt);
        sameSet(seq, exp, wIt);
        if (allNonNeg && seq != exp) throw Fail{tag + " iteration is not ascending"};
        Ctx ctx;
        // (4) membership
        for (auto& t : exp) {
            if (!trie.contains(toE(t), ctx)) throw Fail{tag + " contains" + str(t) + " = false for an inserted tuple [shared ctx]"};
            if (!trie.contains(toE(t))) throw Fail{tag + " contains" + str(t) + " = false for an inserted tuple"};
        }
        if (!full) return;
        for (auto& p0 : c.probes) {
            const Tup p = norm(p0);
            const bool in = model.count(p) != 0;
            if (trie.contains(toE(p), ctx) != in) throw Fail{tag + " contains" + str(p) + " != model (" + std::to_string(in) + ") [shared ctx]"};
            if (trie.contains(toE(p)) != in) throw Fail{tag + " contains" + str(p) + " != model (" + std::to_string(in) + ")"};
            auto f = trie.find(toE(p), ctx);
            if ((f != trie.end()) != in) throw Fail{tag + " find" + str(p) + " disagrees with the model"};
            if (in && fromE(*f) != p) throw Fail{tag + " find" + str(p) + " points to " + str(fromE(*f))};
            // (5) prefix ranges for every prefix length
            boundaries<0>(trie, model, p, ctx, tag);
            // lower_bound / upper_bound are judged only in the regime where every stored and probed value lies in [0, 64):
            // "not less than" has one reading there (the order of negative values is not documented), and the regime keeps
            // clear of two recorded defects of SparseArray::lowerBound / fix_*_bound outside it (carry over two levels
            // returns an absent element; entry+1 overflows for INT32_MAX). Within the regime one more probe shape is
            // excluded and counted: upper_bound probes whose successor is (prefix, p[j]+1, 0, .., 0).
            // A case with strict=1 judges every all-non-negative probe (used by the saved finding replays).
            const bool judged = g_strict ? (allNonNeg && nonNeg(p)) : (allSmall && small(p));
            if (!judged && allNonNeg && nonNeg(p)) g_exOutside++;
            if (judged) {
                auto lb = trie.lower_bound(toE(p), ctx);
                auto el = model.lower_bound(p);
                if ((lb == trie.end()) != (el == model.end())) throw Fail{tag + " lower_bound" + str(p) + ": end-ness disagrees with the model"};
                if (el != model.end() && fromE(*lb) != *el) throw Fail{tag + " lower_bound" + str(p) + " = " + str(fromE(*lb)) + ", model " + str(*el)};
                // the suffix starting at lower_bound is exactly the model's suffix
                if (el != model.end()) {
                    std::vector<Tup> suffix(el, model.end());
                    auto w = [&] { return tag + " [lower_bound" + str(p) + ", end)"; };
                    sameSet(collect(lb, trie.end(), model.size(), w), suffix, w);
                }
                auto eu = model.upper_bound(p);
                bool known = false;
                if (eu != model.end())
                    for (unsigned j = 0; j + 1 < D && !known; j++) {
                        bool m = (*eu)[j] == p[j] + 1;
                        for (unsigned i = 0; i < j; i++) m = m && (*eu)[i] == p[i];
                        for (unsigned i = j + 1; i < D; i++) m = m && (*eu)[i] == 0;
                        known = m;
                    }
                if (known && !g_strict)
                    g_exUbShape++;
                else {
                    auto ub = trie.upper_bound(toE(p), ctx);
                    if ((ub == trie.end()) != (eu == model.end())) throw Fail{tag + " upper_bound" + str(p) + ": end-ness disagrees with the model"};
                    if (eu != model.end() && fromE(*ub) != *eu) throw Fail{tag + " upper_bound" + str(p) + " = " + str(fromE(*ub)) + ", model " + str(*eu)};
                }
            }
        }
        // (6) partition(n): disjoint ranges covering everything
        for (int n : c.parts) {
            if (n < 1) continue;
            auto chunks = trie.partition((unsigned)n);
            auto what = [&] { return tag + " partition(" + std::to_string(n) + ")"; };
            if (model.empty() && !chunks.empty()) {
                for (auto& ch : chunks)
                    if (ch.begin() != ch.end()) throw Fail{what() + ": non-empty chunk of an empty trie"};
            }
            std::vector<Tup> all;
            for (auto& ch : chunks) {
                auto part = collect(ch.begin(), ch.end(), model.size(), what);
                all.insert(all.end(), part.begin(), part.end());
                if (all.size() > model.size()) throw Fail{what() + ": chunks enumerate more tuples than the trie holds (overlap)"};
            }
            sameSet(all, exp, what);
        }
    }

    static Result run(const Case& c, vsched::ChoiceSource* src) {
        Result res;
        T trie;
        Model model;
        try {
            // ---- sequential set-up
            {
                Ctx ctx;
                for (auto& t0 : c.setup) {
                    Tup t = norm(t0);
                    bool r = trie.insert(toE(t), ctx);
                    bool e = model.insert(t).second;
                    if (r != e) throw Fail{"set-up insert" + str(t) + " returned " + std::to_string(r) + ", expected " + std::to_string(e)};
                }
            }
            // ---- concurrent phase
            const int n = (int)c.ops.size();
            if (n > 0) {
                struct Ev {
                    int tid, op, kind;
                    const void* obj;
                };
                std::vector<Ev> evs;
                std::vector<int> curOp(n, -1);
                std::vector<std::vector<char>> rets(n);
                vsched::Scheduler sch(n, src, 80000);
                sch.onPoint = [&](int tid, int kind, const void* obj) { evs.push_back({tid, curOp[tid], kind, obj}); };
                std::vector<std::function<void()>> bodies;
                for (int id = 0; id < n; id++) {
                    bodies.push_back([&, id] {
                        Ctx ctx;
                        for (std::size_t k = 0; k < c.ops[id].size(); k++) {
                            curOp[id] = (int)k;
                            const E e = toE(c.ops[id][k]);
                            bool r;
                            if (c.ctx)
                                r = trie.insert(e, ctx);
                            else {
                                Ctx fresh;
                                r = trie.insert(e, fresh);
                            }
                            rets[id].push_back(r ? 1 : 0);
                        }
                    });
                }
                auto verdict = sch.run(bodies);
                res.steps = sch.step;
                if (verdict == vsched::V_DEADLOCK) throw Fail{"every unfinished thread spins on a root/first-info version that no running thread will release (" + std::to_string(sch.step) + " steps)"};
                if (verdict == vsched::V_BUDGET) {
                    res.inconclusive = true;
                    return res;
                }
                // (2) per new tuple exactly one insert returned true; none for tuples already present
                std::map<Tup, int, TupLess> trues, threadsWith;
                for (int id = 0; id < n; id++) {
                    if (rets[id].size() != c.ops[id].size()) throw Fail{"thread " + std::to_string(id) + " did not finish its inserts"};
                    std::set<Tup, TupLess> mine;
                    for (std::size_t k = 0; k < c.ops[id].size(); k++) {
                        Tup t = norm(c.ops[id][k]);
                        trues[t] += rets[id][k];
                        mine.insert(t);
                    }
                    for (auto& t : mine) threadsWith[t]++;
                }
                for (auto& kv : trues) {
                    const int e = model.count(kv.first) ? 0 : 1;
                    if (kv.second != e)
                        throw Fail{"insert" + str(kv.first) + " returned true " + std::to_string(kv.second) + " times over all threads, expected " + std::to_string(e)};
                    if (e == 1 && threadsWith[kv.first] > 1) res.dupAcross = true;
                }
                for (auto& kv : trues) model.insert(kv.first);
                // non-triviality: per object, does some insert's span of hook points contain a hook point of another thread?
                struct Span {
                    std::size_t first, last, count;
                };
                std::unordered_map<const void*, std::vector<std::size_t>> byObj;
                for (std::size_t i = 0; i < evs.size(); i++) {
                    byObj[evs[i].obj].push_back(i);
                    if (evs[i].kind == souffle::verif::P_SPIN) res.spin = true;
                    res.sig = res.sig * 1099511628211ull + (std::uint64_t)(evs[i].tid * 8 + evs[i].kind + 1);
                }
                for (auto& kv : byObj) {
                    std::map<std::pair<int, int>, Span> spans;
                    auto& idx = kv.second;
                    for (std::size_t k = 0; k < idx.size(); k++) {
                        auto key = std::make_pair(evs[idx[k]].tid, evs[idx[k]].op);
                        auto it = spans.find(key);
                        if (it == spans.end())
                            spans[key] = Span{k, k, 1};
                        else {
                            it->second.last = k;
                            it->second.count++;
                        }
                    }
                    for (auto& sp : spans) {
                        if (sp.second.last - sp.second.first + 1 > sp.second.count) {
                            res.interleaved = true;
                            for (std::size_t k = sp.second.first; k <= sp.second.last; k++)
                                if (evs[idx[k]].tid != sp.first.first && evs[idx[k]].kind == souffle::verif::P_STRUCT) res.updateOverlap = true;
                        }
                    }
                }
            }
            for (auto& t : model)
                for (unsigned i = 0; i < D; i++)
                    if (t[i] < 0) res.mixedSign = true;
            // ---- quiescent reads
            battery(trie, model, c, "after the threads joined:", true);
            // a copy (insertAll into an empty trie) holds the same set
            {
                T cp;
                cp.insertAll(trie);
                battery(cp, model, c, "copy by insertAll into an empty trie:", false);
            }
            // (7) insertAll(other) = set union
            {
                T other;
                Model om;
                Ctx ctx;
                for (auto& t0 : c.other) {
                    Tup t = norm(t0);
                    bool r = other.insert(toE(t), ctx);
                    bool e = om.insert(t).second;
                    if (r != e) throw Fail{"insert" + str(t) + " into the second trie returned " + std::to_string(r) + ", expected " + std::to_string(e)};
                }
                trie.insertAll(other);
                for (auto& t : om) model.insert(t);
                battery(trie, model, c, "after insertAll:", true);
                battery(other, om, c, "argument of insertAll afterwards:", false);
                // inserting after a merge still works (and reports novelty correctly); a context belongs to one trie
                Ctx ctx2;
                for (auto& p0 : c.probes) {
                    Tup p = norm(p0);
                    bool r = trie.insert(toE(p), ctx2);
                    bool e = model.insert(p).second;
                    if (r != e) throw Fail{"insert" + str(p) + " after insertAll returned " + std::to_string(r) + ", expected " + std::to_string(e)};
                }
                battery(trie, model, c, "after the final inserts:", false);
            }
        } catch (const Fail& f) {
            res.ok = false;
            res.msg = f.msg;
        }
        return res;
    }
};

// rough number of hook points of the concurrent phase (places the PCT change points)
static std::uint64_t horizonOf(const Case& c) {
    std::uint64_t ops = 0;
    for (auto& t : c.ops) ops += t.size();
    return 12ull * c.dim * (ops ? ops : 1);
}

static Result runCase(const Case& c, vsched::ChoiceSource* src) {
    g_strict = c.strict != 0;
    switch (c.dim) {
        case 1: return Runner<1>::run(c, src);
        case 2: return Runner<2>::run(c, src);
        case 3: return Runner<3>::run(c, src);
        default: return Runner<4>::run(c, src);
    }
}

// finding "upper_bound skips (x+1,0..0)": after exhausting the branch of entry[0], fix_upper_bound continues with
// upper_bound(entry[0]+1, 0, .., 0) instead of lower_bound, so a stored tuple (entry[0]+1, 0, .., 0) is skipped
static int probeUpperBoundSkip() {
    souffle::Trie<2> t;
    souffle::Trie<2>::entry_type a{0, 0}, b{1, 0};
    t.insert(a);
    t.insert(b);
    auto ub = t.upper_bound(a);
    return (ub == t.end() || *ub != b) ? 1 : 0;
}

// finding "lowerBound carry": SparseArray::lowerBound steps up one level when it leaves the last cell of a node but does not
// re-check the parent's cell index, so a carry over two levels re-enters the wrong subtree and an element that is not
// stored (here 490496 = 474112 + 2^14) is returned
static int probeLowerBoundCarry() {
    souffle::Trie<1> t;
    souffle::Trie<1>::entry_type a{0}, b{474112}, q{474113};
    t.insert(a);
    t.insert(b);
    auto lb = t.lower_bound(q);
    return lb == t.end() ? 0 : 1;
}

static void account(hc::Stats& st, const Case& c, const Result& r) {
    st.evals++;
    if (r.inconclusive) {
        st.inconclusive["step_budget"]++;
        return;
    }
    st.cls("dim=" + std::to_string(c.dim));
    st.cls(c.ss.pct > 0 ? "schedule=pct" : "schedule=bytes+tail");
    st.extra["hook_steps"] += r.steps;
    if (r.mixedSign) st.cls("mixed_sign_values");
    if (r.interleaved) st.cls("inserts_interleaved_on_one_node_object");
    if (r.updateOverlap) st.cls("root_or_first_update_inside_other_threads_insert");
    if (r.spin) st.cls("thread_spun_on_locked_root_or_first_info");
    if (r.dupAcross) st.cls("same_new_tuple_from_several_threads");
    if (r.interleaved) {
        st.nt(c.text());
        if (r.updateOverlap && r.dupAcross) st.sample(c.text());
    } else
        st.cls("trivial");
}

static std::vector<std::int32_t> parseVals(const std::string& s) {
    std::vector<std::int32_t> v;
    std::size_t pos = 0;
    while (pos <= s.size()) {
        std::size_t k = s.find(',', pos);
        std::string w = s.substr(pos, k == std::string::npos ? std::string::npos : k - pos);
        if (!w.empty()) v.push_back((std::int32_t)std::strtol(w.c_str(), nullptr, 10));
        if (k == std::string::npos) break;
        pos = k + 1;
    }
    return v;
}

int main(int argc, char** argv) {
    hc::Args args = hc::parseArgs(argc, argv);
    hc::Stats st;
    hc::Pending pending(args.pending);
    if (!args.replay.empty()) {
        Case c = Case::parse(hc::readFile(args.replay));
        auto src = c.ss.make((int)c.ops.size(), horizonOf(c));
        Result r = runCase(c, src.get());
        if (!r.ok) {
            std::cout << "FAIL: " << r.msg << "\n";
            return 1;
        }
        std::cout << (r.inconclusive ? "INCONCLUSIVE\n" : "PASS\n");
        return 0;
    }
    if (args.mode == "probe") {
        // observations outside the judged regime of lower_bound / upper_bound (see notes/C27.md); never a verdict
        st.extra["obs_upper_bound_skips_next_prefix_zero"] = probeUpperBoundSkip();
        st.extra["obs_lower_bound_carry_returns_absent_element"] = probeLowerBoundCarry();
        if (!args.out.empty()) st.write(args.out);
        return 0;
    }
    if (args.mode == "dfs") {
        // every assignment of tuples over `vals`^dim to threads x ops inserts (optionally after one set-up tuple), x every
        // schedule up to the preemption bound
        const int dim = (int)args.num("dim", 2), nthreads = (int)args.num("threads", 2), nops = (int)args.num("ops", 1),
                  bound = (int)args.num("bound", 2), withSetup = (int)args.num("setup", 0);
        const std::uint64_t maxSchedules = (std::uint64_t)args.num("max", 3000000);
        auto it = args.kv.find("vals");
        std::vector<std::int32_t> vals = parseVals(it == args.kv.end() ? "0,1,64" : it->second);
        std::vector<Tup> alphabet;
        {
            std::vector<int> d(dim, 0);
            while (true) {
                Tup t{};
                for (int i = 0; i < dim; i++) t[i] = vals[d[i]];
                alphabet.push_back(t);
                int k = 0;
                while (k < dim && ++d[k] == (int)vals.size()) d[k++] = 0;
                if (k == dim) break;
            }
        }
        std::uint64_t schedules = 0;
        bool complete = true;
        std::vector<std::size_t> idx(nthreads * nops, 0);
        const std::size_t nsetups = withSetup ? alphabet.size() + 1 : 1;
        for (std::size_t su = 0; su < nsetups; su++) {
            std::fill(idx.begin(), idx.end(), 0);
            while (true) {
                Case c;
                c.dim = dim;
                c.ctx = 1;
                if (su > 0) c.setup.push_back(alphabet[su - 1]);
                for (int t = 0; t < nthreads; t++) {
                    std::vector<Tup> l;
                    for (int o = 0; o < nops; o++) l.push_back(alphabet[idx[t * nops + o]]);
                    c.ops.push_back(l);
                }
                c.probes = alphabet;
                c.parts = {1, 2, 3};
                vsched::DfsSource dfs(bound);
                do {
                    dfs.beginRun();
                    Result r = runCase(c, &dfs);
                    schedules++;
                    Case rc = c;
                    for (std::size_t i = 0; i < dfs.depth; i++) rc.ss.bytes.push_back((std::uint8_t)dfs.stack[i].chosen);
                    rc.ss.tail = 0;
                    account(st, rc, r);
                    if (!r.ok) {
                        st.violations.push_back({rc.text(), r.msg});
                        goto out;
                    }
                    if (schedules >= maxSchedules) {
                        complete = false;
                        goto out;
                    }
                } while (dfs.nextSchedule());
                std::size_t k = 0;
                while (k < idx.size() && ++idx[k] == alphabet.size()) idx[k++] = 0;
                if (k == idx.size()) break;
            }
        }
    out:
        st.extra["schedules"] = schedules;
        st.extra["exhaustive"] = complete && st.violations.empty();
        st.extra["dfs_dim"] = dim;
        st.extra["dfs_threads"] = nthreads;
        st.extra["dfs_ops"] = nops;
        st.extra["dfs_values"] = vals.size();
        st.extra["dfs_preemption_bound"] = bound;
        if (!args.out.empty()) st.write(args.out);
        return st.violations.empty() ? 0 : 1;
    }
    hc::setRcParams(args);
    Case lastFail;
    std::string lastMsg;
    std::uint64_t counter = 0;
    bool ok = rc::check("brie = tuple set under concurrent insertion", [&] {
        Case c;
        c.dim = *hc::R(1, 5);
        c.ctx = *hc::R(0, 4) != 0;
        // value pool
        std::vector<std::int32_t> pool;
        const int kind = *hc::R(0, 9);
        auto any32 = [&] { return (std::int32_t)*hc::R<std::int64_t>(INT32_MIN, (std::int64_t)INT32_MAX + 1); };
        auto pickFrom = [&](const std::vector<std::int32_t>& src, int k, bool nonNegRandom, bool anyRandom) {
            for (int i = 0; i < k; i++) {
                int j = *hc::R(0, (int)src.size() + 2);
                if (j < (int)src.size())
                    pool.push_back(src[j]);
                else if (anyRandom)
                    pool.push_back(any32());
                else if (nonNegRandom)
                    pool.push_back((std::int32_t)*hc::R<std::int64_t>(0, (std::int64_t)INT32_MAX + 1));
                else
                    pool.push_back(src[j % src.size()]);
            }
        };
        if (kind == 0) {   // dense, non-negative, heavy collisions
            int w = *hc::R(2, 10);
            for (int i = 0; i < w; i++) pool.push_back(i);
        } else if (kind == 1) {   // one bitmap word / one leaf node: 0..63
            int w = *hc::R(2, 10);
            for (int i = 0; i < w; i++) pool.push_back(*hc::R(0, 64));
        } else if (kind == 2) {   // dense around a word / node / level boundary
            static const std::int32_t bases[] = {60, 4090, 262140, 16777212, 1073741820, 2147483640};
            std::int32_t b = bases[*hc::R(0, 6)];
            for (int i = 0; i < 8; i++) pool.push_back(b + i);
        } else if (kind == 3) {   // dense, mixed sign
            for (int i = -3; i <= 6; i++) pool.push_back(i);
        } else if (kind <= 5) {   // sparse, non-negative (level raising, first-pointer updates)
            pickFrom({0, 1, 63, 64, 65, 4095, 4096, 4097, 262143, 262144, 16777216, 1073741824, 2147483646, 2147483647}, *hc::R(3, 9), true, false);
        } else {   // sparse, mixed sign, with the extremes
            pickFrom({0, -1, 1, 2147483647, INT32_MIN, -2147483647, 64, -64, -65, 4096, -4096, 1 << 30, -(1 << 30), 63}, *hc::R(3, 9), false, true);
        }
        // narrower pools in the leading columns so that prefixes are shared
        std::vector<int> width(4, (int)pool.size());
        for (int j = 0; j < c.dim; j++) width[j] = *hc::R(1, (int)pool.size() + 1);
        if (*hc::R(0, 3) == 0) width[c.dim - 1] = (int)pool.size();
        auto genTup = [&] {
            Tup t{};
            for (int j = 0; j < c.dim; j++) t[j] = pool[*hc::R(0, width[j])];
            return t;
        };
        std::vector<Tup> seen;
        const int ns = *hc::R(0, 4) == 0 ? 0 : *hc::R(0, 8);
        for (int i = 0; i < ns; i++) c.setup.push_back(genTup());
        static const int nthr[] = {2, 2, 2, 2, 3, 3, 3, 4, 4, 5, 6, 7, 8};
        const int n = nthr[*hc::R(0, 13)];
        const int maxOps = n <= 4 ? 6 : 4;
        for (int i = 0; i < n; i++) {
            std::vector<Tup> l;
            const int k = *hc::R(1, maxOps);
            for (int j = 0; j < k; j++) {
                // re-use a tuple another thread inserts (race on one bitmap bit) in ~25% of the draws
                if (!seen.empty() && *hc::R(0, 4) == 0)
                    l.push_back(seen[*hc::R(0, (int)seen.size())]);
                else
                    l.push_back(genTup());
                seen.push_back(l.back());
            }
            c.ops.push_back(l);
        }
        const int no = *hc::R(0, 7);
        for (int i = 0; i < no; i++) {
            Tup t = genTup();
            // tuples outside the first trie's range make insertAll raise levels
            if (*hc::R(0, 4) == 0) t[*hc::R(0, c.dim)] = pool[*hc::R(0, (int)pool.size())];
            c.other.push_back(t);
        }
        for (auto& t : c.setup) seen.push_back(t);
        for (auto& t : c.other) seen.push_back(t);
        const int np = *hc::R(2, 7);
        for (int i = 0; i < np; i++) {
            int how = *hc::R(0, 4);
            Tup t = (how == 0 || seen.empty()) ? genTup() : seen[*hc::R(0, (int)seen.size())];
            if (how >= 2) {   // keep a prefix, change the rest: present prefix, (mostly) absent tuple
                int from = *hc::R(0, c.dim);
                for (int j = from; j < c.dim; j++) t[j] = pool[*hc::R(0, (int)pool.size())];
            }
            if (how == 3 && kind > 3) t[*hc::R(0, c.dim)] = kind <= 5 ? (std::int32_t)*hc::R<std::int64_t>(0, (std::int64_t)INT32_MAX + 1) : any32();
            c.probes.push_back(t);
        }
        c.parts = {1, 2, 3, 7, 100};
        c.ss.tail = *hc::R<std::uint64_t>(1, 1u << 30);
        if (*hc::R(0, 2) == 0)
            c.ss.pct = *hc::R(1, 6);
        else {
            c.ss.bytes = *rc::gen::container<std::vector<std::uint8_t>>(rc::gen::arbitrary<std::uint8_t>());
            c.ss.den = 2 << *hc::R(0, 5);
        }
        pending.set(c.text());
        auto src = c.ss.make((int)c.ops.size(), horizonOf(c));
        Result r = runCase(c, src.get());
        if (r.ok && !r.inconclusive && (++counter % 256) == 0) {
            // determinism of the scheduled execution: the same case yields the same hook-event sequence
            auto src2 = c.ss.make((int)c.ops.size(), horizonOf(c));
            Result r2 = runCase(c, src2.get());
            if (r2.sig != r.sig || r2.ok != r.ok) st.inconclusive["nondeterministic_reexecution"]++;
        }
        pending.clear();
        account(st, c, r);
        if (!r.ok) {
            lastFail = c;
            lastMsg = r.msg;
        }
        RC_ASSERT(r.ok);
    });
    if (!ok) st.violations.push_back({lastFail.text(), lastMsg});
    st.extra["excluded:bound_probe_outside_0_63"] = g_exOutside;
    st.extra["excluded:upper_bound_probe_whose_successor_is_next_prefix_then_zeros"] = g_exUbShape;
    if (!args.out.empty()) st.write(args.out);
    return ok ? 0 : 1;
}
