// C30 -- the optimistic read-write lock protocol is safe (plus SpinLock / ReadWriteLock analogues).
// Protocol-correct client transactions run under the cooperative scheduler; history invariants are checked online.
#include "hcommon.h"
#include "vsched.h"
#include "souffle/utility/ParallelUtil.h"
#include <atomic>
#include <rapidcheck.h>

using namespace souffle;

enum LockKind { OPT = 0, SPIN = 1, RW = 2 };
// transaction kinds (optimistic lock)
enum Tx { T_READ = 0, T_READ_ENDREAD = 1, T_UPGRADE_COMMIT = 2, T_UPGRADE_ABORT = 3, T_WRITE = 4, T_TRYWRITE = 5,
    T_TRYWRITE_ABORT = 6, T_NKINDS = 7 };

// a lock whose version counter has been driven past INT_MAX by 2^30 real write phases (done once per process, with the
// hook disabled): versions are negative from then on, which is where a sign-sensitive "is odd" test breaks
static OptimisticReadWriteLock& agedLock() {
    static OptimisticReadWriteLock l;
    static bool done = false;
    if (!done) {
        done = true;
        for (long i = 0; i < (1L << 30) + 3; i++) {
            l.start_write();
            l.end_write();
        }
    }
    if (l.is_write_locked()) l.abort_write();   // a previous (failing) case may have left it taken
    return l;
}

struct Case {
    int kind = OPT;
    int aged = 0;
    std::vector<std::vector<int>> tx;   // per client
    std::vector<std::uint8_t> sched;
    std::uint64_t tail = 0;
    std::string text() const {
        std::ostringstream os;
        os << "c30 lock=" << kind << " clients=" << tx.size() << " aged=" << aged << "\n";
        for (auto& t : tx) {
            os << "t:";
            for (int x : t) os << " " << x;
            os << "\n";
        }
        os << "schedule:";
        for (auto b : sched) os << " " << (int)b;
        os << "\ntail: " << tail << "\n";
        return os.str();
    }
    static Case parse(const std::string& s) {
        Case c;
        std::istringstream is(s);
        std::string line;
        while (std::getline(is, line)) {
            std::istringstream ls(line);
            std::string w;
            ls >> w;
            if (w == "c30") {
                std::string kv;
                while (ls >> kv)
                    if (kv.rfind("lock=", 0) == 0) c.kind = std::atoi(kv.c_str() + 5);
                    else if (kv.rfind("aged=", 0) == 0) c.aged = std::atoi(kv.c_str() + 5);
            } else if (w == "t:") {
                std::vector<int> t;
                int x;
                while (ls >> x) t.push_back(x);
                c.tx.push_back(t);
            } else if (w == "schedule:") {
                int x;
                while (ls >> x) c.sched.push_back((std::uint8_t)x);
            } else if (w == "tail:") {
                ls >> c.tail;
            }
        }
        return c;
    }
};

struct Result {
    bool ok = true;
    std::string msg;
    bool inconclusive = false;
    bool overlap = false;      // a read phase overlapped a write phase of another client
    bool contention = false;   // an acquisition attempt failed / spun because another client held the lock
    bool abortOverlap = false;
    std::uint64_t steps = 0;
};

struct Fail {
    std::string msg;
};

static Result runCase(const Case& c, vsched::ChoiceSource* src) {
    Result res;
    const int n = (int)c.tx.size();
    std::atomic<int> a{0}, b{0};
    int holder = -1;            // client currently holding write permission
    int busy = 0;               // clients inside an acquisition attempt or holding write permission
    std::uint64_t commitEpoch = 0;   // bumped when a committing write phase starts and when it ends
    int commits = 0;
    std::string failure;
    auto fail = [&](const std::string& m) {
        if (failure.empty()) failure = m;
    };
    vsched::Scheduler sch(n, src, 20000);
    auto Y = [] { vsched::Scheduler::yieldPoint(); };

    OptimisticReadWriteLock freshLock;
    OptimisticReadWriteLock& ol = (c.aged && c.kind == OPT) ? agedLock() : freshLock;
    SpinLock sl;
    ReadWriteLock rwl;
    int readers = 0;  // RW lock model

    std::vector<std::function<void()>> bodies;
    for (int id = 0; id < n; id++) {
        bodies.push_back([&, id] {
            for (int t : c.tx[id]) {
                if (c.kind == SPIN) {
                    // t even: lock(); odd: try_lock()
                    bool got = true;
                    busy++;
                    if (t % 2 == 0) {
                        sl.lock();
                    } else {
                        got = sl.try_lock();
                        if (!got && holder != -1) res.contention = true;
                    }
                    if (got) {
                        if (holder != -1) fail("SpinLock: two holders");
                        holder = id;
                        int v = a.load();
                        Y();
                        a.store(v + 1);
                        commits++;
                        holder = -1;
                        busy--;
                        sl.unlock();
                    } else
                        busy--;
                    continue;
                }
                if (c.kind == RW) {
                    switch (t % 5) {
                        case 0: {  // read
                            rwl.start_read();
                            if (holder != -1) fail("ReadWriteLock: reader admitted while a writer holds the lock");
                            readers++;
                            int x = a.load();
                            Y();
                            int y = b.load();
                            if (x != y) fail("ReadWriteLock: torn read under a read lock");
                            readers--;
                            rwl.end_read();
                            break;
                        }
                        case 1: {  // write
                            rwl.start_write();
                            if (holder != -1 || readers != 0) fail("ReadWriteLock: writer admitted with readers/writer present");
                            holder = id;
                            a.store(a.load() + 1);
                            Y();
                            b.store(b.load() + 1);
                            commits++;
                            holder = -1;
                            rwl.end_write();
                            break;
                        }
                        case 2: {  // try_write
                            if (rwl.try_write()) {
                                if (holder != -1 || readers != 0) fail("ReadWriteLock: try_write admitted with readers/writer present");
                                holder = id;
                                a.store(a.load() + 1);
                                Y();
                                b.store(b.load() + 1);
                                commits++;
                                holder = -1;
                                rwl.end_write();
                            } else
                                res.contention = true;
                            break;
                        }
                        case 3: {  // read, try upgrade
                            rwl.start_read();
                            readers++;
                            int x = a.load();
                            Y();
                            readers--;   // about to either become the writer or leave
                            if (rwl.try_upgrade_to_write()) {
                                if (holder != -1 || readers != 0) fail("ReadWriteLock: upgrade admitted with other readers/writer present");
                                holder = id;
                                if (a.load() != x) fail("ReadWriteLock: value changed under a read lock");
                                a.store(x + 1);
                                Y();
                                b.store(x + 1);
                                commits++;
                                holder = -1;
                                rwl.end_write();
                            } else {
                                res.contention = true;
                                rwl.end_read();
                            }
                            break;
                        }
                        case 4: {  // write then downgrade
                            rwl.start_write();
                            if (holder != -1 || readers != 0) fail("ReadWriteLock: writer admitted with readers/writer present");
                            holder = id;
                            a.store(a.load() + 1);
                            b.store(b.load() + 1);
                            commits++;
                            holder = -1;
                            readers++;
                            rwl.downgrade_to_read();
                            Y();
                            if (a.load() != b.load()) fail("ReadWriteLock: torn read after downgrade");
                            readers--;
                            rwl.end_read();
                            break;
                        }
                    }
                    continue;
                }
                // ---- optimistic lock
                auto modify = [&](int base) {
                    a.store(base + 1);
                    Y();
                    b.store(base + 1);
                };
                switch (t % T_NKINDS) {
                    case T_READ:
                    case T_READ_ENDREAD: {
                        auto lease = ol.start_read();
                        std::uint64_t e0 = commitEpoch;
                        if (holder != -1) fail("start_read returned while a writer holds the lock");
                        int x = a.load();
                        Y();
                        int y = b.load();
                        if (commitEpoch != e0 || holder != -1) res.overlap = true;
                        bool v = (t % T_NKINDS == T_READ) ? ol.validate(lease) : ol.end_read(lease);
                        if (v) {
                            if (commitEpoch != e0) fail("validation succeeded although a committed write phase overlapped the read phase");
                            if (x != y) fail("validation succeeded on a torn read");
                        } else {
                            if (commitEpoch == e0 && busy == 0)
                                fail("validation failed although no write phase overlapped (aborted writes must restore the version)");
                            if (commitEpoch == e0) res.abortOverlap = true;
                        }
                        break;
                    }
                    case T_UPGRADE_COMMIT:
                    case T_UPGRADE_ABORT: {
                        auto lease = ol.start_read();
                        std::uint64_t e0 = commitEpoch;
                        int x = a.load();
                        Y();
                        busy++;
                        const bool commit = (t % T_NKINDS == T_UPGRADE_COMMIT);
                        const bool otherActive = busy > 1;
                        if (ol.try_upgrade_to_write(lease)) {
                            if (holder != -1) fail("two writers: upgrade granted while another client holds write permission");
                            if (commitEpoch != e0) fail("upgrade granted although a write committed since the lease");
                            holder = id;
                            if (commit) {
                                commitEpoch++;
                                if (a.load() != x) fail("value changed between lease and granted upgrade");
                                modify(x);
                                commits++;
                                commitEpoch++;
                                holder = -1;
                                ol.end_write();
                                busy--;
                            } else {
                                Y();
                                holder = -1;
                                ol.abort_write();
                                busy--;
                            }
                        } else {
                            const bool otherNow = busy > 1;
                            busy--;
                            if (otherActive || otherNow || commitEpoch != e0) res.contention = true;
                            if (!otherActive && !otherNow && commitEpoch == e0)
                                fail("upgrade refused although the lease was current and nobody else was writing");
                        }
                        break;
                    }
                    case T_WRITE: {
                        busy++;
                        if (holder != -1) res.contention = true;
                        ol.start_write();
                        if (holder != -1) fail("two writers: start_write returned while another client holds write permission");
                        holder = id;
                        commitEpoch++;
                        modify(a.load());
                        commits++;
                        commitEpoch++;
                        holder = -1;
                        ol.end_write();
                        busy--;
                        break;
                    }
                    case T_TRYWRITE:
                    case T_TRYWRITE_ABORT: {
                        busy++;
                        const bool otherActive = busy > 1;
                        if (ol.try_start_write()) {
                            if (holder != -1) fail("two writers: try_start_write granted while another client holds write permission");
                            holder = id;
                            if (t % T_NKINDS == T_TRYWRITE) {
                                commitEpoch++;
                                modify(a.load());
                                commits++;
                                commitEpoch++;
                                holder = -1;
                                ol.end_write();
                                busy--;
                            } else {
                                Y();
                                holder = -1;
                                ol.abort_write();
                                busy--;
                            }
                        } else {
                            const bool otherNow = busy > 1;
                            busy--;
                            res.contention = true;
                            if (!otherActive && !otherNow) fail("try_start_write refused although nobody else was writing");
                        }
                        break;
                    }
                }
            }
        });
    }
    auto verdict = sch.run(bodies);
    res.steps = sch.step;
    if (verdict == vsched::V_DEADLOCK) {
        res.ok = false;
        res.msg = "livelock: every unfinished client spins and no lock word changes (holder=" + std::to_string(holder) + ")";
        return res;
    }
    if (verdict == vsched::V_BUDGET) {
        res.inconclusive = true;
        return res;
    }
    if (failure.empty()) {
        if (c.kind != SPIN && a.load() != b.load()) failure = "final record torn (a != b)";
        else if (a.load() != commits) failure = "lost update: final value " + std::to_string(a.load()) + " != committed writes " + std::to_string(commits);
        else if (c.kind == OPT && ol.is_write_locked()) failure = "lock left write-locked after all clients finished";
    }
    if (!failure.empty()) {
        res.ok = false;
        res.msg = failure;
    }
    return res;
}

static void account(hc::Stats& st, const Case& c, const Result& r) {
    st.evals++;
    if (r.inconclusive) {
        st.inconclusive["step_budget"]++;
        return;
    }
    st.cls(std::string("lock=") + (c.kind == OPT ? "optimistic" : c.kind == SPIN ? "spin" : "readwrite"));
    if (c.aged && c.kind == OPT) st.cls("aged_lock_negative_versions");
    if (r.overlap) st.cls("read_phase_overlapped_by_write");
    if (r.contention) st.cls("contended_acquisition");
    if (r.abortOverlap) st.cls("read_overlapped_only_by_aborted_write");
    if (r.overlap || r.contention || r.abortOverlap) {
        st.nt(c.text());
        if (c.kind == OPT) st.sample(c.text());
    } else
        st.cls("trivial");
}

int main(int argc, char** argv) {
    hc::Args args = hc::parseArgs(argc, argv);
    hc::Stats st;
    hc::Pending pending(args.pending);
    if (!args.replay.empty()) {
        Case c = Case::parse(hc::readFile(args.replay));
        vsched::ByteSource src(c.sched, c.tail);
        Result r = runCase(c, &src);
        if (!r.ok) {
            std::cout << "FAIL: " << r.msg << "\n";
            return 1;
        }
        std::cout << (r.inconclusive ? "INCONCLUSIVE\n" : "PASS\n");
        return 0;
    }
    if (args.mode == "dfs") {
        // bounded-exhaustive: every transaction multiset for `clients` x `ntx` with preemption bound
        const int clients = (int)args.num("clients", 2), ntx = (int)args.num("ntx", 1), bound = (int)args.num("bound", 2);
        const std::uint64_t maxSchedules = (std::uint64_t)args.num("max", 2000000);
        std::uint64_t schedules = 0;
        bool complete = true;
        // enumerate transaction assignments
        std::vector<int> digits(clients * ntx, 0);
        while (true) {
            Case c;
            c.kind = OPT;
            for (int i = 0; i < clients; i++) c.tx.push_back(std::vector<int>(digits.begin() + i * ntx, digits.begin() + (i + 1) * ntx));
            vsched::DfsSource dfs(bound);
            do {
                dfs.beginRun();
                Result r = runCase(c, &dfs);
                schedules++;
                // record the explored schedule in the case text for replays
                Case rc = c;
                for (std::size_t i = 0; i < dfs.depth; i++) rc.sched.push_back((std::uint8_t)dfs.stack[i].chosen);
                account(st, rc, r);
                if (!r.ok) {
                    st.violations.push_back({rc.text(), r.msg});
                    goto out;
                }
                if (schedules >= maxSchedules) {
                    complete = false;
                    goto out;
                }
            } while (dfs.nextSchedule());
            int k = 0;
            while (k < (int)digits.size() && ++digits[k] == T_NKINDS) digits[k++] = 0;
            if (k == (int)digits.size()) break;
        }
    out:
        st.extra["schedules"] = schedules;
        st.extra["exhaustive"] = complete && st.violations.empty();
        st.extra["dfs_clients"] = clients;
        st.extra["dfs_ntx"] = ntx;
        st.extra["dfs_preemption_bound"] = bound;
        if (!args.out.empty()) st.write(args.out);
        return st.violations.empty() ? 0 : 1;
    }
    hc::setRcParams(args);
    Case lastFail;
    std::string lastMsg;
    bool ok = rc::check("optimistic lock protocol invariants", [&] {
        Case c;
        c.aged = (int)args.num("aged", 0);
        c.kind = c.aged ? OPT : *rc::gen::weightedElement<int>({{6, OPT}, {1, SPIN}, {2, RW}});
        const int n = *hc::R(2, 4);
        for (int i = 0; i < n; i++) {
            auto t = *rc::gen::resize(30, rc::gen::container<std::vector<int>>(hc::R(0, (int)T_NKINDS)));
            if (t.size() > 3) t.resize(3);
            if (t.empty()) t.push_back(0);
            c.tx.push_back(t);
        }
        c.sched = *rc::gen::container<std::vector<std::uint8_t>>(rc::gen::arbitrary<std::uint8_t>());
        c.tail = *hc::R<std::uint64_t>(0, 1u << 30);
        const std::string text = c.text();
        pending.set(text);
        vsched::ByteSource src(c.sched, c.tail);
        Result r = runCase(c, &src);
        pending.clear();
        account(st, c, r);
        if (!r.ok) {
            lastFail = c;
            lastMsg = r.msg;
        }
        RC_ASSERT(r.ok);
    });
    if (!ok) st.violations.push_back({lastFail.text(), lastMsg});
    if (!args.out.empty()) st.write(args.out);
    return ok ? 0 : 1;
}
