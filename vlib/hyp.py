"""Hypothesis glue: a Chooser whose every random choice is a Hypothesis draw (so shrinking works) and is
logged into a trace (so a case can be replayed without Hypothesis)."""
import sys
from hypothesis import given, settings, seed as hseed, HealthCheck, Phase, strategies as st
from hypothesis.errors import HypothesisException
from .common import Violation, Discard, Inconclusive, Stats

_INT_CACHE = {}


def _ints(lo, hi):
    k = (lo, hi)
    s = _INT_CACHE.get(k)
    if s is None:
        s = _INT_CACHE[k] = st.integers(lo, hi)
    return s


class Chooser:
    """ch.int(lo,hi) etc. Option 0 / lo should always be the 'simplest' alternative so shrinking simplifies."""

    def __init__(self, data=None, trace=None):
        self.data = data
        self.replay = list(trace) if trace is not None else None
        self.pos = 0
        self.trace = []

    def int(self, lo, hi):
        if hi <= lo:
            return lo
        if self.replay is not None:
            if self.pos < len(self.replay):
                v = self.replay[self.pos]
                self.pos += 1
                if v < lo or v > hi:
                    v = lo + (v - lo) % (hi - lo + 1)
            else:
                v = lo
        else:
            v = self.data.draw(_ints(lo, hi))
        self.trace.append(v)
        return v

    def bool(self, p=0.5):
        """True with probability ~p; shrinks to False"""
        n = int(round(p * 100))
        if n <= 0:
            return False
        if n >= 100:
            return True
        return self.int(0, 99) >= 100 - n

    def choice(self, seq):
        return seq[self.int(0, len(seq) - 1)]

    def weighted(self, pairs):
        """pairs: [(weight, item)], first item is the simplest"""
        tot = sum(w for w, _ in pairs)
        r = self.int(0, tot - 1)
        for w, it in pairs:
            if r < w:
                return it
            r -= w
        return pairs[-1][1]

    def sample(self, seq, k):
        seq = list(seq)
        out = []
        for _ in range(min(k, len(seq))):
            out.append(seq.pop(self.int(0, len(seq) - 1)))
        return out

    def shuffle(self, seq):
        seq = list(seq)
        out = []
        while seq:
            out.append(seq.pop(self.int(0, len(seq) - 1)))
        return out

    def subset(self, seq, p=0.5):
        return [x for x in seq if self.bool(p)]


def hyp_run(prop, seed_value, max_examples, stats, make_case=None, shrink=True):
    """Run prop(ch) under Hypothesis. prop returns normally (pass), or raises Violation/Discard/Inconclusive.
    On violation Hypothesis shrinks; the minimal failing trace is recorded in stats.violations."""
    holder = {"last": None}

    @hseed(seed_value)
    @settings(max_examples=max_examples, database=None, deadline=None, derandomize=False,
              report_multiple_bugs=False, suppress_health_check=list(HealthCheck),
              phases=[Phase.generate, Phase.shrink] if shrink else [Phase.generate], print_blob=False)
    @given(st.data())
    def t(data):
        ch = Chooser(data=data)
        try:
            prop(ch)
        except Discard as d:
            stats.discards[d.why] += 1
        except Inconclusive as d:
            stats.inconclusive[d.why] += 1
        except Violation as v:
            holder["last"] = (list(ch.trace), v)
            raise

    try:
        t()
    except Violation:
        pass
    except HypothesisException as e:  # e.g. Flaky: judged again by the 3x replay in finish()
        stats.inconclusive["hypothesis_" + type(e).__name__] += 1
    except BaseException as e:
        if holder["last"] is None:
            raise
    if holder["last"] is not None:
        trace, v = holder["last"]
        case = {"trace": trace}
        case.update(v.detail.get("case", {}))
        stats.violations.append({"case": case, "msg": v.msg, "selfevident": v.detail.get("selfevident", False)})
    return stats


class SeededChooser(Chooser):
    """the same interface driven by a seeded PRNG instead of Hypothesis: for checks whose single case is so expensive (a C++
    compile) that library shrinking is not affordable; the trace still allows exact replay"""

    def __init__(self, seed):
        import random
        Chooser.__init__(self, trace=[])
        self.replay = None
        self.rng = random.Random(seed)

    def int(self, lo, hi):
        if hi <= lo:
            return lo
        v = self.rng.randint(lo, hi)
        self.trace.append(v)
        return v
