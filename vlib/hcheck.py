"""Boilerplate of the engine-H checks: build the C++ harness from /repo's current headers, run it in several
processes with derived seeds (plus optional exhaustive/extra runs), merge statistics, confirm violations by
replaying 3x through the plain replay path, write evidence."""
import os, json, time, subprocess, tempfile, shutil
from concurrent.futures import ThreadPoolExecutor
from . import common
from .common import Stats

HBUILD = os.path.join(common.ROOT, "build", "harness")


def build(name):
    env = dict(os.environ)
    env["VERIF_REPO"] = common.REPO
    r = subprocess.run([os.path.join(common.ROOT, "harness", "build.sh"), name], env=env, stdout=subprocess.PIPE,
                       stderr=subprocess.STDOUT, text=True)
    if r.returncode != 0:
        raise RuntimeError("harness build failed:\n" + r.stdout[-3000:])
    return os.path.join(HBUILD, name)


ASAN_ENV = {"ASAN_OPTIONS": "detect_leaks=0:abort_on_error=0:exitcode=99", "UBSAN_OPTIONS": "print_stacktrace=1:halt_on_error=1:exitcode=98"}


def run_one(binary, args, tag, timeout):
    d = tempfile.mkdtemp(prefix="verif-h-", dir=common.scratch_root())
    out = os.path.join(d, "out.json")
    pend = os.path.join(d, "pending.case")
    env = dict(os.environ)
    env.update(ASAN_ENV)
    env.setdefault("OMP_NUM_THREADS", "8")
    res = {"tag": tag, "args": args}
    try:
        try:
            p = subprocess.run([binary] + args + ["--out", out, "--pending", pend], env=env, stdout=subprocess.PIPE,
                               stderr=subprocess.PIPE, timeout=timeout)
            res["rc"] = p.returncode
            res["stderr"] = p.stderr.decode("utf-8", "replace")[-3000:]
            res["stdout"] = p.stdout.decode("utf-8", "replace")[-2000:]
        except subprocess.TimeoutExpired as e:
            res["rc"] = None
            res["stderr"] = "timeout"
            res["stdout"] = ""
        if os.path.exists(out):
            try:
                res["json"] = json.load(open(out))
            except ValueError:
                res["json"] = None
        if os.path.exists(pend):
            res["pending"] = open(pend).read()
    finally:
        shutil.rmtree(d, ignore_errors=True)
    return res


class HCheck:
    def __init__(self, pid, harness, rule, quick_runs, thorough_runs, assumptions=(), floor=50, level="exploration",
                 known_match=None, extra_fn=None, timeout=1500, workers=None):
        """quick_runs / thorough_runs: function(seed) -> list of (tag, [cli args])"""
        self.pid, self.harness, self.rule = pid, harness, rule
        self.quick_runs, self.thorough_runs = quick_runs, thorough_runs
        self.assumptions, self.floor, self.level = list(assumptions), floor, level
        self.known_match, self.extra_fn, self.timeout = known_match, extra_fn, timeout
        self.workers = workers or common.NCPU

    def replay_text(self, binary, text):
        """returns 'FAIL: msg' / 'PASS' / 'INCONCLUSIVE' / 'CRASH: ...'"""
        d = tempfile.mkdtemp(prefix="verif-hr-", dir=common.scratch_root())
        try:
            f = os.path.join(d, "c.case")
            open(f, "w").write(text)
            env = dict(os.environ)
            env.update(ASAN_ENV)
            env.setdefault("OMP_NUM_THREADS", "8")
            try:
                p = subprocess.run([binary, "--replay", f], env=env, stdout=subprocess.PIPE, stderr=subprocess.PIPE, timeout=300)
            except subprocess.TimeoutExpired:
                return "TIMEOUT"
            out = p.stdout.decode("utf-8", "replace")
            if p.returncode == 0:
                return out.strip().split("\n")[-1] if out.strip() else "PASS"
            for ln in out.split("\n"):
                if ln.startswith("FAIL:"):
                    return ln
            return "CRASH: rc=%s %s" % (p.returncode, p.stderr.decode("utf-8", "replace")[-1500:])
        finally:
            shutil.rmtree(d, ignore_errors=True)

    def replay_file(self, path):
        binary = build(self.harness)
        r = self.replay_text(binary, open(path).read())
        if r.startswith("FAIL") or r.startswith("CRASH") or r == "TIMEOUT":
            print("VIOLATION property=%s replay=%s" % (self.pid, path))
            print(r)
            return 1
        print("replay: " + r)
        return 0

    def main(self, tier, seed):
        t0 = time.time()
        binary = build(self.harness)
        runs = (self.quick_runs if tier == "quick" else self.thorough_runs)(seed)
        st = Stats()
        hashes = set()
        cands = []
        broken = []
        with ThreadPoolExecutor(max_workers=self.workers) as ex:
            futs = [ex.submit(run_one, binary, args, tag, self.timeout) for tag, args in runs]
            for f in futs:
                r = f.result()
                j = r.get("json")
                if j:
                    st.evals += j["evaluations"]
                    hashes |= set(j.get("nontrivial_hashes", []))
                    for k, v in j["classes"].items():
                        st.classes[k] += v
                    for k, v in j["inconclusive"].items():
                        st.inconclusive[k] += v
                    for k, v in j.get("extra", {}).items():
                        st.extra[r["tag"] + ":" + k] = v
                    for s in j["samples"]:
                        if len(st.samples) < 5:
                            st.samples.append(s)
                    for v in j["violations"]:
                        cands.append((v["case"], v["msg"]))
                if r["rc"] is None:
                    st.inconclusive["run_timeout:" + r["tag"]] += 1
                elif r["rc"] not in (0, 1) or (r["rc"] == 1 and not (j and j["violations"])):
                    # crash (sanitizer report, assertion, signal): the pending case is the candidate
                    if r.get("pending"):
                        cands.append((r["pending"], "harness process died rc=%s: %s" % (r["rc"], r["stderr"][-1200:])))
                    else:
                        broken.append("run %s exited rc=%s without a pending case: %s" % (r["tag"], r["rc"], (r["stderr"] or r["stdout"])[-800:]))
        st.nontrivial = hashes
        # regression tier: saved shrunk cases of earlier findings (fixed ones must stay fixed)
        cdir = os.path.join(common.ROOT, "corpus", self.pid)
        if os.path.isdir(cdir):
            for fn in sorted(os.listdir(cdir)):
                if fn.endswith(".case"):
                    text = open(os.path.join(cdir, fn)).read()
                    r = self.replay_text(binary, text)
                    st.evals += 1
                    st.classes["corpus_replayed"] += 1
                    if r.startswith("FAIL") or r.startswith("CRASH") or r == "TIMEOUT":
                        cands.append((text, "corpus case %s fails again: %s" % (fn, r[:300])))
        confirmed, known_hits = [], []
        seen = set()
        for text, msg in cands:
            k = common.h(text)
            if k in seen:
                continue
            seen.add(k)
            rs = [self.replay_text(binary, text) for _ in range(3)]
            nfail = sum(1 for x in rs if x.startswith("FAIL") or x.startswith("CRASH") or x == "TIMEOUT")
            if nfail < 3:
                st.inconclusive["violation_not_reproduced_%d_of_3" % nfail] += 1
                continue
            kf = self.known_match(text, msg + "\n" + rs[0]) if self.known_match else None
            if kf:
                known_hits.append(kf)
                continue
            d = os.path.join(common.REPLAY_DIR, self.pid)
            os.makedirs(d, exist_ok=True)
            path = os.path.join(d, k + ".case")
            open(path, "w").write(text)
            confirmed.append((path, msg + " | replay: " + rs[0][:500]))
        wall = time.time() - t0
        extra = self.extra_fn(st) if self.extra_fn else None
        common.write_evidence(self.pid, tier, seed, self.level, st, self.rule, wall, self.assumptions, extra, violations=len(confirmed))
        printed = set()
        for kf in known_hits:
            if kf["key"] not in printed:
                printed.add(kf["key"])
                print("KNOWN-FINDING: property=%s %s" % (self.pid, kf["what"]))
        for path, msg in confirmed[:5]:
            print("VIOLATION property=%s replay=%s" % (self.pid, path))
            print("  " + msg.replace("\n", "\n  ")[:2000])
        rc = 0
        if confirmed:
            rc = 1
        elif broken:
            for b in broken[:3]:
                print("BROKEN: " + b)
            rc = 2
        elif len(st.nontrivial) < self.floor:
            print("BROKEN: only %d non-trivial cases (floor %d)" % (len(st.nontrivial), self.floor))
            rc = 2
        print("%s %s: evaluations=%d distinct_nontrivial=%d inconclusive=%d violations=%d wall=%.1fs" % (
            self.pid, tier, st.evals, len(st.nontrivial), sum(st.inconclusive.values()), len(confirmed), wall))
        return rc
