"""Reference value semantics of souffle's intrinsic functors and constraints (32-bit domain), written from the
language documentation, independent of the engine code. Anything outside the defined domain raises OutOfDomain."""
import struct, math


class OutOfDomain(Exception):
    pass


I32_MIN, I32_MAX, U32_MAX = -(1 << 31), (1 << 31) - 1, (1 << 32) - 1


def f32(x):
    """round a python float to IEEE single"""
    try:
        return struct.unpack("<f", struct.pack("<f", x))[0]
    except OverflowError:
        return math.inf if x > 0 else -math.inf


def f32_bits(x):
    return struct.unpack("<I", struct.pack("<f", x))[0]


def bits_f32(b):
    return struct.unpack("<f", struct.pack("<I", b & U32_MAX))[0]


def to_signed(u):
    u &= U32_MAX
    return u - (1 << 32) if u >= (1 << 31) else u


def chk_i(v):
    if v < I32_MIN or v > I32_MAX:
        raise OutOfDomain("signed overflow")
    return v


def chk_f(v):
    v = f32(v)
    if math.isnan(v) or math.isinf(v):
        raise OutOfDomain("float non-finite")
    if v == 0.0 and math.copysign(1.0, v) < 0:
        raise OutOfDomain("negative zero")
    return v


def _tdiv(a, b):
    q = abs(a) // abs(b)
    return q if (a >= 0) == (b >= 0) else -q


def _tmod(a, b):
    return a - _tdiv(a, b) * b


def arith(op, ty, a):
    """evaluate intrinsic functor `op` at overload type `ty` ('number','unsigned','float','symbol') on args a"""
    if ty == "number":
        if op == "+": return chk_i(a[0] + a[1])
        if op == "-": return chk_i(a[0] - a[1])
        if op == "*": return chk_i(a[0] * a[1])
        if op == "/":
            if a[1] == 0: raise OutOfDomain("div0")
            return chk_i(_tdiv(a[0], a[1]))
        if op == "%":
            if a[1] == 0: raise OutOfDomain("mod0")
            if a[0] == I32_MIN and a[1] == -1: raise OutOfDomain("min%-1")
            return _tmod(a[0], a[1])
        if op == "^":
            if a[1] < 0: raise OutOfDomain("negative exponent")
            return chk_i(a[0] ** a[1]) if a[1] < 64 or abs(a[0]) <= 1 else chk_i(1 << 40)
        if op == "neg": return chk_i(-a[0])
        if op == "bnot": return to_signed(~a[0])
        if op == "band": return to_signed((a[0] & U32_MAX) & (a[1] & U32_MAX))
        if op == "bor": return to_signed((a[0] & U32_MAX) | (a[1] & U32_MAX))
        if op == "bxor": return to_signed((a[0] & U32_MAX) ^ (a[1] & U32_MAX))
        if op == "bshl": return to_signed((a[0] & U32_MAX) << (a[1] & 31))
        if op == "bshr": return a[0] >> (a[1] & 31)
        if op == "bshru": return to_signed((a[0] & U32_MAX) >> (a[1] & 31))
        if op == "land": return 1 if (a[0] != 0 and a[1] != 0) else 0
        if op == "lor": return 1 if (a[0] != 0 or a[1] != 0) else 0
        if op == "lxor": return 1 if ((a[0] != 0) != (a[1] != 0)) else 0
        if op == "lnot": return 1 if a[0] == 0 else 0
        if op == "min": return min(a)
        if op == "max": return max(a)
    elif ty == "unsigned":
        if op == "+": return (a[0] + a[1]) & U32_MAX
        if op == "-": return (a[0] - a[1]) & U32_MAX
        if op == "*": return (a[0] * a[1]) & U32_MAX
        if op == "/":
            if a[1] == 0: raise OutOfDomain("div0")
            return a[0] // a[1]
        if op == "%":
            if a[1] == 0: raise OutOfDomain("mod0")
            return a[0] % a[1]
        if op == "^": return pow(a[0], a[1], 1 << 32)
        if op == "bnot": return (~a[0]) & U32_MAX
        if op == "band": return a[0] & a[1]
        if op == "bor": return a[0] | a[1]
        if op == "bxor": return a[0] ^ a[1]
        if op == "bshl": return (a[0] << (a[1] & 31)) & U32_MAX
        if op in ("bshr", "bshru"): return a[0] >> (a[1] & 31)
        if op == "land": return 1 if (a[0] != 0 and a[1] != 0) else 0
        if op == "lor": return 1 if (a[0] != 0 or a[1] != 0) else 0
        if op == "lxor": return 1 if ((a[0] != 0) != (a[1] != 0)) else 0
        if op == "lnot": return 1 if a[0] == 0 else 0
        if op == "min": return min(a)
        if op == "max": return max(a)
    elif ty == "float":
        if op == "+": return chk_f(a[0] + a[1])
        if op == "-": return chk_f(a[0] - a[1])
        if op == "*": return chk_f(a[0] * a[1])
        if op == "/":
            if a[1] == 0: raise OutOfDomain("fdiv0")
            return chk_f(a[0] / a[1])
        if op == "neg": return chk_f(-a[0])
        if op == "min": return min(a)
        if op == "max": return max(a)
    elif ty == "symbol":
        if op == "cat": return "".join(a)
        if op == "min": return min(a, key=lambda s: s.encode("utf-8", "surrogateescape"))
        if op == "max": return max(a, key=lambda s: s.encode("utf-8", "surrogateescape"))
    raise KeyError("no reference semantics for %s/%s" % (op, ty))


def strlen(s):
    return len(s.encode("utf-8", "surrogateescape"))


def substr(s, idx, ln):
    """documented: substr(s, idx, len); out-of-range idx yields the empty string (with a warning)"""
    b = s.encode("utf-8", "surrogateescape")
    if idx < 0 or idx > len(b) or ln < 0:
        raise OutOfDomain("substr range")
    return b[idx:idx + ln].decode("utf-8", "surrogateescape")


def compare(op, ty, a, b):
    if ty == "symbol" and op not in ("=", "!="):
        a = a.encode("utf-8", "surrogateescape")
        b = b.encode("utf-8", "surrogateescape")
    if op == "=": return a == b
    if op == "!=": return a != b
    if op == "<": return a < b
    if op == "<=": return a <= b
    if op == ">": return a > b
    if op == ">=": return a >= b
    raise KeyError(op)
