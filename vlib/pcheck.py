"""Boilerplate shared by the engine-P checks whose case is self-contained (program text + configs)."""
import json, time, os
from . import common
from .common import Violation, Discard, Inconclusive, Stats
from .hyp import hyp_run


class PCheck:
    """gen(ch) -> case (JSON-able dict); judge(case, st_or_None) raises Violation/Discard/Inconclusive.
    judge must be able to re-judge a case loaded from a replay file (st=None)."""

    def __init__(self, pid, rule, gen, judge, quick, thorough, assumptions=(), floor=30, level="exploration",
                 known_match=None, probes=None, shards=None, extra=None, corpus=True):
        self.pid, self.rule, self.gen, self.judge = pid, rule, gen, judge
        self.quick, self.thorough = quick, thorough
        self.assumptions, self.floor, self.level = list(assumptions), floor, level
        self.known_match, self.probes, self.shards, self.extra = known_match, probes, shards, extra
        self.corpus = corpus

    def worker(self, shard, seed, n, params):
        st = Stats()

        def prop(ch):
            case = self.gen(ch)
            st.evals += 1
            self.judge(case, st)
        hyp_run(prop, seed, n, st)
        return st

    def replay_case(self, case):
        self.judge(case, None)

    def replay_file(self, path):
        case = json.load(open(path))
        try:
            self.replay_case(case)
        except Violation as v:
            print("VIOLATION property=%s replay=%s" % (self.pid, path))
            print(v.msg)
            return 1
        except (Discard, Inconclusive) as e:
            print("replay not conclusive: %s" % e)
            return 0
        print("replay passes")
        return 0

    def main(self, tier, seed):
        t0 = time.time()
        total = self.quick if tier == "quick" else self.thorough
        if os.environ.get("VERIF_N"):
            total = int(os.environ["VERIF_N"])
        st = common.run_sharded(self.worker, seed, total, {"tier": tier}, shards=self.shards)
        if self.corpus:
            # regression tier: saved cases of repaired defects (corpus/<id>/*.json) are replayed on every run
            import glob
            for path in sorted(glob.glob(os.path.join(common.ROOT, "corpus", self.pid, "*.json"))):
                case = json.load(open(path))
                st.classes["corpus_regression_cases"] += 1
                try:
                    self.replay_case(case)
                except Violation as v:
                    st.violations.append({"case": case, "msg": "corpus case %s fails again: %s" % (os.path.basename(path), v.msg)})
                except (Discard, Inconclusive):
                    pass
        if self.probes:
            self.probes(st, tier, seed)
        extra = self.extra(st) if self.extra else None
        return common.finish(self.pid, tier, seed, self.level, st, self.rule, t0, replay_fn=self.replay_case,
                             assumptions=self.assumptions, nontrivial_floor=self.floor, known_match=self.known_match, extra=extra)
