"""Shared plumbing for all checks: build, running souffle, evidence, findings, sharding.

Everything here is deterministic given VERIF_SEED; nothing reads the clock inside a property
(wall time is only measured for the evidence file)."""
import os, sys, json, time, subprocess, hashlib, fcntl, shutil, tempfile, signal, traceback
import multiprocessing as mp
from collections import Counter

ROOT = os.path.dirname(os.path.dirname(os.path.abspath(__file__)))
REPO = os.environ.get("VERIF_REPO", "/repo")
BUILD_ROOT = os.path.join(ROOT, "build")
# the registered checks always build /repo into build/souffle; sensitivity experiments point VERIF_REPO at a scratch
# worktree, which gets its own (ccache-backed) build directory so that it never disturbs the real one
BUILD = os.path.join(BUILD_ROOT, "souffle" if REPO == "/repo" else "souffle-" + hashlib.sha1(REPO.encode()).hexdigest()[:10])
SOUFFLE = os.path.join(BUILD, "src", "souffle")
SOUFFLEPROF = os.path.join(BUILD, "src", "souffleprof")
EVIDENCE_DIR = os.environ.get("VERIF_EVIDENCE_DIR", os.path.join(ROOT, "evidence"))
REPLAY_DIR = os.environ.get("VERIF_REPLAY_DIR", os.path.join(ROOT, "replays"))
NCPU = int(os.environ.get("VERIF_JOBS", "16"))
# Process creation is close to serialised in this sandbox (~200 spawns/s whatever the core count, and contention
# burns CPU), so checks that spawn one souffle per case gain nothing beyond ~6 workers.
SPAWN_WORKERS = int(os.environ.get("VERIF_SPAWN_WORKERS", "6"))
GUARD = "SOUFFLE_VERIF"


def seed_from_env():
    try:
        return int(os.environ.get("VERIF_SEED", "1"))
    except ValueError:
        return 1


def scratch_root():
    d = "/dev/shm" if os.path.isdir("/dev/shm") and os.access("/dev/shm", os.W_OK) else tempfile.gettempdir()
    return d


class Scratch:
    """A private scratch directory removed on exit."""

    def __init__(self, tag="vf"):
        self.path = tempfile.mkdtemp(prefix="verif-%s-" % tag, dir=scratch_root())

    def __enter__(self):
        return self.path

    def __exit__(self, *a):
        shutil.rmtree(self.path, ignore_errors=True)


# ------------------------------------------------------------------------------------------------
# build

def ensure_build(quiet=True):
    """(Re)build souffle + souffleprof from REPO's current working tree with the hook guard on.
    ninja makes this a no-op when nothing changed. Serialised with flock so parallel checks share it."""
    os.makedirs(BUILD_ROOT, exist_ok=True)
    lock = open(os.path.join(BUILD_ROOT, ".build.lock"), "w")
    fcntl.flock(lock, fcntl.LOCK_EX)
    try:
        t0 = time.time()
        cache = os.path.join(BUILD, "CMakeCache.txt")
        need_cfg = not os.path.exists(cache) or not os.path.exists(os.path.join(BUILD, "build.ninja"))
        if not need_cfg:
            with open(cache) as f:
                c = f.read()
            if ("CMAKE_HOME_DIRECTORY:INTERNAL=%s\n" % REPO) not in c:
                shutil.rmtree(BUILD, ignore_errors=True)
                need_cfg = True
        log = open(os.path.join(BUILD_ROOT, "build.log"), "a")
        if need_cfg:
            cmd = ["cmake", "-G", "Ninja", "-S", REPO, "-B", BUILD, "-DCMAKE_BUILD_TYPE=Release",
                   "-DCMAKE_CXX_FLAGS=-Wno-error -D%s" % GUARD, "-DCMAKE_CXX_FLAGS_RELEASE=-O1",
                   "-DSOUFFLE_GIT=OFF", "-DSOUFFLE_ENABLE_TESTING=OFF"]
            if REPO != "/repo" and shutil.which("ccache"):
                cmd.append("-DCMAKE_CXX_COMPILER_LAUNCHER=ccache")
            r = subprocess.run(cmd, stdout=log, stderr=subprocess.STDOUT)
            if r.returncode != 0:
                raise RuntimeError("cmake configure failed; see %s/build.log" % BUILD_ROOT)
        benv = dict(os.environ)
        if REPO != "/repo":
            benv.update({"CCACHE_BASEDIR": REPO, "CCACHE_NOHASHDIR": "1", "CCACHE_DIR": "/tmp/ccache-verif"})
        r = subprocess.run(["ninja", "-C", BUILD, "souffle", "souffleprof"], stdout=log, stderr=subprocess.STDOUT, env=benv)
        if r.returncode != 0:
            raise RuntimeError("build of souffle failed; see %s/build.log" % BUILD_ROOT)
        if not quiet:
            print("build ok (%.1fs)" % (time.time() - t0))
    finally:
        fcntl.flock(lock, fcntl.LOCK_UN)
        lock.close()
    return SOUFFLE


# ------------------------------------------------------------------------------------------------
# running processes

class RunResult:
    __slots__ = ("rc", "out", "err", "timeout", "signal")

    def __init__(self, rc, out, err, timeout):
        self.rc, self.out, self.err, self.timeout = rc, out, err, timeout
        self.signal = -rc if (rc is not None and rc < 0) else None

    def __repr__(self):
        return "RunResult(rc=%r timeout=%r err=%r)" % (self.rc, self.timeout, self.err[-300:])


def run(cmd, cwd=None, timeout=20, env=None, stdin_data=None):
    e = dict(os.environ)
    e.pop("SOUFFLE_VERIF_SKIP_RAM", None)
    if env:
        e.update(env)
    try:
        p = subprocess.Popen(cmd, cwd=cwd, env=e, stdin=subprocess.PIPE if stdin_data is not None else subprocess.DEVNULL,
                             stdout=subprocess.PIPE, stderr=subprocess.PIPE, start_new_session=True)
    except OSError as ex:
        return RunResult(127, "", str(ex), False)
    try:
        out, err = p.communicate(stdin_data, timeout=timeout)
        return RunResult(p.returncode, out.decode("utf-8", "replace"), err.decode("utf-8", "replace"), False)
    except subprocess.TimeoutExpired:
        try:
            os.killpg(p.pid, signal.SIGKILL)
        except OSError:
            pass
        out, err = p.communicate()
        return RunResult(None, out.decode("utf-8", "replace"), err.decode("utf-8", "replace"), True)


def souffle(args, cwd=None, timeout=20, env=None, stdin_data=None):
    return run([SOUFFLE, "--no-preprocessor"] + list(args), cwd=cwd, timeout=timeout, env=env, stdin_data=stdin_data)


def write_files(base, files):
    for rel, text in files.items():
        p = os.path.join(base, rel)
        os.makedirs(os.path.dirname(p), exist_ok=True)
        mode = "wb" if isinstance(text, bytes) else "w"
        with open(p, mode) as f:
            f.write(text)


def read_outputs(outdir):
    """relation name -> list of lines (raw text)"""
    res = {}
    if not os.path.isdir(outdir):
        return res
    for fn in sorted(os.listdir(outdir)):
        if fn.endswith(".csv"):
            with open(os.path.join(outdir, fn), "rb") as f:
                data = f.read().decode("utf-8", "surrogateescape")
            lines = data.split("\n")
            if lines and lines[-1] == "":
                lines.pop()
            res[fn[:-4]] = lines
    return res


# ------------------------------------------------------------------------------------------------
# violations / findings / evidence

class Violation(Exception):
    def __init__(self, msg, detail=None):
        Exception.__init__(self, msg)
        self.msg = msg
        self.detail = detail or {}


class Discard(Exception):
    """case is outside the property's domain (counted)"""

    def __init__(self, why="discard"):
        Exception.__init__(self, why)
        self.why = why


class Inconclusive(Exception):
    def __init__(self, why="inconclusive"):
        Exception.__init__(self, why)
        self.why = why


def load_findings():
    p = os.path.join(ROOT, "known_findings.json")
    if not os.path.exists(p):
        return {"findings": [], "fixed": []}
    with open(p) as f:
        return json.load(f)


def findings_for(pid):
    return [f for f in load_findings().get("findings", []) if f.get("property") == pid]


def h(text):
    if not isinstance(text, bytes):
        text = text.encode("utf-8", "surrogateescape")
    return hashlib.sha1(text).hexdigest()[:16]


def save_replay(pid, case):
    d = os.path.join(REPLAY_DIR, pid)
    os.makedirs(d, exist_ok=True)
    body = json.dumps(case, indent=1, sort_keys=True, default=str)
    path = os.path.join(d, h(body) + ".json")
    with open(path, "w") as f:
        f.write(body)
    return path


class Stats:
    """Per-worker statistics; mergeable."""

    def __init__(self):
        self.evals = 0
        self.nontrivial = set()
        self.classes = Counter()
        self.samples = []
        self.discards = Counter()
        self.inconclusive = Counter()
        self.known = Counter()
        self.violations = []  # list of dict(case=..., msg=...)
        self.extra = {}
        self.known_lines = []  # KNOWN-FINDING lines from dedicated probes (main process only)

    def merge(self, o):
        self.evals += o.evals
        self.nontrivial |= o.nontrivial
        self.classes.update(o.classes)
        self.discards.update(o.discards)
        self.inconclusive.update(o.inconclusive)
        self.known.update(o.known)
        for s in o.samples:
            if len(self.samples) < 5:
                self.samples.append(s)
        self.violations.extend(o.violations)
        for k, v in o.extra.items():
            if isinstance(v, (int, float)):
                self.extra[k] = self.extra.get(k, 0) + v
            elif isinstance(v, Counter):
                self.extra.setdefault(k, Counter()).update(v)
            else:
                self.extra.setdefault(k, v)

    def sample(self, s, cap=2):
        if len(self.samples) < cap:
            self.samples.append(s)


def write_evidence(pid, tier, seed, level, stats, rule, wall, assumptions=None, extra=None, violations=0):
    os.makedirs(EVIDENCE_DIR, exist_ok=True)
    cov = {
        "evaluations": int(stats.evals),
        "distinct_nontrivial": len(stats.nontrivial),
        "rule": rule,
        "samples": stats.samples[:5] if stats.samples else ["<no sample recorded>"],
        "classes": dict(sorted(stats.classes.items())),
        "discarded_out_of_domain": dict(stats.discards),
        "inconclusive": dict(stats.inconclusive),
        "known_findings_excluded": dict(stats.known),
    }
    for k, v in stats.extra.items():
        cov[k] = dict(v) if isinstance(v, Counter) else v
    if extra:
        cov.update(extra)
    ev = {"property_id": pid, "tier": tier, "seed": int(seed), "level": level, "coverage": cov,
          "assumptions": assumptions or [], "wall_s": round(wall, 2), "violations": int(violations)}
    tmp = os.path.join(EVIDENCE_DIR, pid + ".json.tmp")
    with open(tmp, "w") as f:
        json.dump(ev, f, indent=1, default=str)
    os.replace(tmp, os.path.join(EVIDENCE_DIR, pid + ".json"))
    return ev


# ------------------------------------------------------------------------------------------------
# sharded execution

def _shard_entry(args):
    fn, shard, seed, n, params = args
    try:
        return fn(shard, seed, n, params)
    except Exception:
        s = Stats()
        s.extra["worker_errors"] = 1
        s.extra["worker_error_text"] = traceback.format_exc()[-2000:]
        return s


def run_sharded(worker, seed, total, params=None, shards=None):
    """worker(shard_index, shard_seed, n_examples, params) -> Stats"""
    shards = shards or SPAWN_WORKERS
    per = max(1, total // shards)
    jobs = [(worker, i, seed * 64 + i, per, params or {}) for i in range(shards)]
    merged = Stats()
    if shards == 1:
        merged.merge(_shard_entry(jobs[0]))
        return merged
    ctx = mp.get_context("fork")
    with ctx.Pool(shards) as pool:
        for st in pool.imap_unordered(_shard_entry, jobs):
            merged.merge(st)
    return merged


def finish(pid, tier, seed, level, stats, rule, t0, replay_fn=None, assumptions=None, extra=None,
           nontrivial_floor=2, known_match=None):
    """Common epilogue: confirm candidate violations by replaying 3x, apply known findings, write evidence,
    print VIOLATION lines, return exit code."""
    confirmed = []
    known_hits = []
    seen = set()
    for v in stats.violations:
        case = v["case"]
        key = h(json.dumps(case, sort_keys=True, default=str))
        if key in seen:
            continue
        seen.add(key)
        ok = True
        if replay_fn is not None:
            fails = 0
            for _ in range(3):
                try:
                    replay_fn(case)
                except Violation:
                    fails += 1
                except (Discard, Inconclusive):
                    pass
            ok = fails == 3 or (v.get("selfevident") and fails >= 0)
            if not ok:
                stats.inconclusive["violation_not_reproduced_%d_of_3" % fails] += 1
        if not ok:
            continue
        kf = known_match(case, v) if known_match else None
        if kf:
            known_hits.append((kf, v))
            continue
        case = dict(case)
        case["violation"] = v["msg"]
        path = save_replay(pid, case)
        confirmed.append((path, v["msg"]))
    if stats.extra.get("worker_errors"):
        print("BROKEN: %d worker(s) raised: %s" % (stats.extra["worker_errors"], stats.extra.get("worker_error_text", "")))
    wall = time.time() - t0
    write_evidence(pid, tier, seed, level, stats, rule, wall, assumptions, extra, violations=len(confirmed))
    printed = set()
    for ln in stats.known_lines:
        print("KNOWN-FINDING: property=%s %s" % (pid, ln))
    for kf, v in known_hits:
        if kf["key"] not in printed and kf["what"] not in stats.known_lines:
            printed.add(kf["key"])
            print("KNOWN-FINDING: property=%s %s" % (pid, kf["what"]))
    for path, msg in confirmed[:5]:
        print("VIOLATION property=%s replay=%s" % (pid, path))
        print("  " + msg.replace("\n", "\n  ")[:2000])
    rc = 0
    if confirmed:
        rc = 1
    elif stats.extra.get("worker_errors"):
        rc = 2
    elif len(stats.nontrivial) < nontrivial_floor:
        print("BROKEN: only %d non-trivial cases (floor %d) -- generator problem, not a verdict" % (len(stats.nontrivial), nontrivial_floor))
        rc = 2
    print("%s %s: evaluations=%d distinct_nontrivial=%d discards=%d inconclusive=%d violations=%d wall=%.1fs" % (
        pid, tier, stats.evals, len(stats.nontrivial), sum(stats.discards.values()), sum(stats.inconclusive.values()), len(confirmed), wall))
    return rc
