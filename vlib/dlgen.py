"""dlgen: typed Datalog program generator with its own AST. Programs are stratifiable, grounded, well typed and
finite *by construction* (no rejection sampling). The body of each rule is stored in a safe left-to-right
evaluation order (used by dlref); the printed order is an independent permutation."""
from .refops import I32_MIN, I32_MAX, U32_MAX

NUMBER, UNSIGNED, FLOAT, SYMBOL = "number", "unsigned", "float", "symbol"
BASE = (NUMBER, UNSIGNED, FLOAT, SYMBOL)


class RecT:
    """record type; fields: list of types (base names or RecT)"""

    def __init__(self, name, fields):
        self.name, self.fields = name, fields

    def __repr__(self):
        return self.name


class AdtT(RecT):
    """algebraic data type; branches: list of (branch name, [field types]); values are tuples ("$Branch", v1, ...)"""

    def __init__(self, name, branches):
        RecT.__init__(self, name, [])
        self.branches = branches


def tname(t):
    return t if isinstance(t, str) else t.name


# ---- terms
class Var:
    def __init__(self, name, ty): self.name, self.ty = name, ty


class Const:
    def __init__(self, val, ty, spelling=None): self.val, self.ty, self.spelling = val, ty, spelling


class Wild:
    def __init__(self, ty): self.ty = ty


class Fn:
    def __init__(self, op, args, ty, oty=None):
        self.op, self.args, self.ty = op, args, ty
        self.oty = oty or ty  # overload type (type of the operands)


class RecInit:
    def __init__(self, args, ty): self.args, self.ty = args, ty


class AdtInit(RecInit):
    """ADT branch constructor / pattern $Branch(args)"""

    def __init__(self, branch, args, ty):
        RecInit.__init__(self, args, ty)
        self.branch = branch


class Or:
    """disjunction of conjunctions of constraints over bound variables: (c1, c2 ; c3)"""

    def __init__(self, alts): self.alts = alts


class Agg:
    def __init__(self, op, target, body, ty, locals_):
        self.op, self.target, self.body, self.ty, self.locals = op, target, body, ty, locals_


# ---- literals
class Atom:
    def __init__(self, rel, args): self.rel, self.args = rel, args


class Neg:
    def __init__(self, atom): self.atom = atom


class Cmp:
    def __init__(self, op, lhs, rhs, ty): self.op, self.lhs, self.rhs, self.ty = op, lhs, rhs, ty


class Rule:
    def __init__(self, head, body, order=None):
        self.head, self.body = head, body
        self.order = order or list(range(len(body)))
        self.plan = None      # text appended after the clause
        self.tags = set()
        self.extra_heads = []  # further head atoms of a multi-head clause (same body)


class Rel:
    def __init__(self, name, types, kind):
        self.name, self.types, self.kind = name, types, kind  # kind: edb|idb
        self.attrs = ["a%d" % i for i in range(len(types))]
        self.facts = []       # list of value tuples (edb)
        self.from_file = False
        self.quals = []       # e.g. ['brie'], ['eqrel'], ['inline']
        self.output = kind == "idb"
        self.group = None
        self.recursive = False
        self.extra_decl = ""  # e.g. choice-domain
        self.late_facts = []  # facts of an IDB relation, printed after its rules


class Program:
    def __init__(self):
        self.rectypes = []
        self.rels = {}
        self.order = []       # relation names in declaration order
        self.groups = []      # list of lists of idb names (evaluation strata, bottom-up); edb not included
        self.rules = []
        self.directives = []  # extra text lines
        self.tags = set()

    def add_rel(self, r):
        self.rels[r.name] = r
        self.order.append(r.name)

    def rules_of(self, name):
        return [r for r in self.rules if r.head.rel == name]


# ------------------------------------------------------------------------------------------------
# value pools

NUM_SMALL = list(range(-3, 7))
NUM_BOUND = [I32_MAX, I32_MIN + 1, I32_MAX - 1, 65536, 1 << 30, -(1 << 30), 255, -256]
UNS_SMALL = list(range(0, 9))
UNS_BOUND = [U32_MAX, U32_MAX - 1, 1 << 31, (1 << 31) - 1, 65536, 255]
FLT_SMALL = [k / 4.0 for k in range(-8, 13)]
FLT_BOUND = [1024.0, -1023.75, 100.5, -64.25]
SYM_SMALL = ["a", "b", "c", "ab", "ba", "A", "x y", "b1", "abc"]
SYM_ODD = ["", "a.b", "x_y", "0", "-1", "aa", "Z z"]


class Feat:
    """feature switches; each check takes the fragment its property names"""

    def __init__(self, **kw):
        self.types = (NUMBER, SYMBOL, UNSIGNED, FLOAT)
        self.records = True
        self.negation = True
        self.constraints = True
        self.functors = True
        self.aggregates = True
        self.recursion = True
        self.boundary_values = True
        self.nullary = True
        self.file_facts = True
        self.max_groups = 5
        self.max_edb = 4
        self.max_facts = 10
        self.max_rules = 3
        self.max_atoms = 3
        self.min_numeric_domain = False  # allow I32_MIN itself in pools
        self.counter_recursion = True
        self.empty_symbol = True
        self.eqrel = False
        self.output_edb = False
        self.bitops = True
        self.idb_facts = True        # IDB relations may also carry facts (written after their rules)
        self.ineq_clusters = True    # several inequalities on the attributes of one atom
        self.casts = True            # as(x, unsigned) / as(x, number) in comparisons
        self.adts = False            # algebraic data types (construction and destructuring)
        self.ranges = False          # range(lo, hi[, step]) generators
        self.disjunctions = False    # (c1 ; c2) over bound variables
        self.multihead = False       # h1(..), h2(..) :- body.
        self.__dict__.update(kw)


def gen_value(ch, ty, feat, small_only=False):
    if isinstance(ty, AdtT):
        bname, ftys = ch.choice(ty.branches)
        return ("$" + bname,) + tuple(gen_value(ch, f, feat, small_only) for f in ftys)
    if isinstance(ty, RecT):
        if ch.bool(0.15):
            return None
        return tuple(gen_value(ch, f, feat, small_only) for f in ty.fields)
    bnd = feat.boundary_values and not small_only and ch.bool(0.08)
    if ty == NUMBER:
        if bnd:
            pool = NUM_BOUND + ([I32_MIN] if feat.min_numeric_domain else [])
            return ch.choice(pool)
        return ch.choice(NUM_SMALL[3:] + NUM_SMALL[:3]) if ch.bool(0.8) else ch.int(-3, 6)
    if ty == UNSIGNED:
        return ch.choice(UNS_BOUND) if bnd else ch.choice(UNS_SMALL)
    if ty == FLOAT:
        return ch.choice(FLT_BOUND) if bnd else ch.choice(FLT_SMALL[8:] + FLT_SMALL[:8])
    if ty == SYMBOL:
        if bnd:
            pool = SYM_ODD if feat.empty_symbol else SYM_ODD[1:]
            return ch.choice(pool)
        return ch.choice(SYM_SMALL)
    raise KeyError(ty)


# ------------------------------------------------------------------------------------------------
# generator

class Gen:
    def __init__(self, ch, feat):
        self.ch, self.feat = ch, feat
        self.P = Program()
        self.vn = 0

    def fresh(self, ty):
        self.vn += 1
        return Var("v%d" % self.vn, ty)

    # -- schema
    def gen_types(self):
        ch, feat = self.ch, self.feat
        ts = [feat.types[0]]
        for t in feat.types[1:]:
            if ch.bool(0.5):
                ts.append(t)
        self.base = ts
        self.alltypes = list(ts)
        if feat.records and ch.bool(0.35):
            n = ch.int(1, 2)
            for i in range(n):
                k = ch.int(1, 3)
                fields = [ch.choice(self.alltypes) for _ in range(k)]
                rt = RecT("Rec%d" % i, fields)
                self.P.rectypes.append(rt)
                self.alltypes.append(rt)
        if feat.adts and ch.bool(0.35):
            nb = ch.int(2, 3)
            branches = []
            for j in range(nb):
                k = 0 if (j == nb - 1 and ch.bool(0.6)) else ch.int(1, 2)
                branches.append(("Br0x%d" % j, [ch.choice(self.alltypes) for _ in range(k)]))
            at = AdtT("Adt0", branches)
            self.P.rectypes.append(at)
            self.alltypes.append(at)

    def pick_type(self, prefer=None):
        ch = self.ch
        if prefer and ch.bool(0.7):
            return ch.choice(prefer)
        return ch.choice(self.alltypes)

    def gen_edb(self):
        ch, feat, P = self.ch, self.feat, self.P
        n = ch.int(1, feat.max_edb)
        for i in range(n):
            ar = ch.weighted([(5, 2), (3, 1), (2, 3)] + ([(1, 0)] if feat.nullary else []))
            types = [self.pick_type(prefer=self.base[:1]) for _ in range(ar)]
            r = Rel("e%d" % i, types, "edb")
            r.output = feat.output_edb
            seen = set()
            nf = ch.int(0, feat.max_facts)
            if ar == 0:
                nf = min(nf, 1)
            for _ in range(nf):
                t = tuple(gen_value(ch, ty, feat) for ty in types)
                if t not in seen:
                    seen.add(t)
                    r.facts.append(t)
            if feat.file_facts and ar > 0 and ch.bool(0.4):
                ok = all(self._file_ok(v) for t in r.facts for v in t)
                r.from_file = ok
            P.add_rel(r)

    def _file_ok(self, v):
        if isinstance(v, str):
            return v != ""   # an empty field in a one-column file is an empty line; keep file facts plain
        if isinstance(v, tuple):
            return all(self._file_ok(x) for x in v)
        return True

    # -- rules
    def avail_types(self, rels):
        s = []
        for r in rels:
            for t in r.types:
                if t not in s:
                    s.append(t)
        return s

    def gen_groups(self):
        ch, feat, P = self.ch, self.feat, self.P
        ng = ch.int(1, feat.max_groups)
        idx = 0
        for g in range(ng):
            lower = [P.rels[n] for n in P.order]
            rec = feat.recursion and ch.bool(0.55)
            nrel = 2 if (rec and ch.bool(0.3)) else 1
            group = []
            lt = self.avail_types(lower) or [self.base[0]]
            for k in range(nrel):
                ar = ch.weighted([(5, 2), (3, 1), (2, 3)] + ([(1, 0)] if (feat.nullary and (not rec or (nrel == 2 and k == 1))) else []))
                types = [self.pick_type(prefer=lt) for _ in range(ar)]
                r = Rel("r%d" % idx, types, "idb")
                idx += 1
                r.group = g
                r.recursive = rec
                group.append(r)
            for r in group:
                P.add_rel(r)
            P.groups.append([r.name for r in group])
            for i, r in enumerate(group):
                nr = ch.int(1, feat.max_rules)
                made_rec = False
                for j in range(nr):
                    want_rec = rec and (j > 0 or (nrel == 2 and i == 1))
                    if want_rec:
                        made_rec = True
                    P.rules.append(self.gen_rule(r, lower, group if rec else [], want_rec, i))
                if rec and not made_rec:
                    P.rules.append(self.gen_rule(r, lower, group, True, i))
                if feat.idb_facts and len(r.types) > 0 and ch.bool(0.3):
                    seen = set()
                    for _ in range(ch.int(1, 3)):
                        t = tuple(gen_value(ch, ty, feat) for ty in r.types)
                        if t not in seen:
                            seen.add(t)
                            r.late_facts.append(t)

    def gen_atom_args(self, rel, env, allow_new=True, allow_wild=True, injected=None):
        """arguments for a positive atom over `rel`; env: type-name -> [Var] of bound vars; new vars are added"""
        ch = self.ch
        args = []
        for ty in rel.types:
            key = tname(ty)
            bound = env.get(key, [])
            opts = []
            if allow_new:
                opts.append((5, "new"))
            if bound:
                opts.append((3, "old"))
            opts.append((1, "const"))
            if allow_wild:
                opts.append((1, "wild"))
            if isinstance(ty, RecT) and allow_new:
                opts.append((3 if isinstance(ty, AdtT) else 2, "destruct"))
            k = ch.weighted(opts)
            if k == "new":
                v = self.fresh(ty)
                env.setdefault(key, []).append(v)
                args.append(v)
            elif k == "old":
                args.append(ch.choice(bound))
            elif k == "const":
                args.append(Const(gen_value(ch, ty, self.feat, small_only=True), ty))
            elif k == "wild":
                args.append(Wild(ty))
            else:
                args.append(self.gen_destruct(ty, env, 0))
        return args

    def gen_destruct(self, ty, env, depth):
        ch = self.ch
        sub = []
        fields = ty.fields
        branch = None
        if isinstance(ty, AdtT):
            branch, fields = ch.choice(ty.branches)
        for ft in fields:
            key = tname(ft)
            k = ch.weighted([(5, "new"), (2, "old" if env.get(key) else "new"), (1, "const"), (1, "wild")])
            if isinstance(ft, RecT) and not isinstance(ft, AdtT) and depth < 1 and ch.bool(0.3):
                sub.append(self.gen_destruct(ft, env, depth + 1))
            elif k == "new":
                v = self.fresh(ft)
                env.setdefault(key, []).append(v)
                sub.append(v)
            elif k == "old":
                sub.append(ch.choice(env[key]))
            elif k == "const":
                sub.append(Const(gen_value(ch, ft, self.feat, small_only=True), ft))
            else:
                sub.append(Wild(ft))
        if branch is not None:
            return AdtInit(branch, sub, ty)
        return RecInit(sub, ty)

    def gen_expr(self, ty, env, depth, allow_fn=True):
        """expression of type ty over bound vars; contains >=1 variable if it is a functor"""
        ch, feat = self.ch, self.feat
        key = tname(ty)
        bound = env.get(key, [])
        if isinstance(ty, AdtT):
            if bound and ch.bool(0.6):
                return ch.choice(bound)
            bname, ftys = ch.choice(ty.branches)
            return AdtInit(bname, [self.gen_expr(ft, env, depth + 1, allow_fn) for ft in ftys], ty)
        if isinstance(ty, RecT):
            if bound and ch.bool(0.6):
                return ch.choice(bound)
            if ch.bool(0.15):
                return Const(None, ty)
            return RecInit([self.gen_expr(ft, env, depth + 1, allow_fn) for ft in ty.fields], ty)
        use_fn = allow_fn and feat.functors and depth < 2 and ch.bool(0.3)
        if not use_fn:
            if bound and ch.bool(0.85):
                return ch.choice(bound)
            return Const(gen_value(ch, ty, feat, small_only=True), ty)
        # functor with at least one variable leaf
        if ty == SYMBOL:
            kinds = []
            if bound:
                kinds += [(3, "cat"), (1, "substr")]
            if env.get(NUMBER):
                kinds.append((2, "to_string"))
            if not kinds:
                return Const(gen_value(ch, ty, feat, small_only=True), ty)
            k = ch.weighted(kinds)
            if k == "cat":
                a = ch.choice(bound)
                b = self.gen_expr(SYMBOL, env, depth + 1, allow_fn)
                return Fn("cat", [a, b] if ch.bool(0.5) else [b, a], SYMBOL)
            if k == "substr":
                return Fn("substr", [ch.choice(bound), Const(ch.int(0, 2), NUMBER), Const(ch.int(0, 3), NUMBER)], SYMBOL)
            return Fn("to_string", [self.gen_expr(NUMBER, env, depth + 1, allow_fn)], SYMBOL, NUMBER)
        if not bound:
            if ty == NUMBER and env.get(SYMBOL) and ch.bool(0.5):
                return Fn("strlen", [ch.choice(env[SYMBOL])], NUMBER, SYMBOL)
            return Const(gen_value(ch, ty, feat, small_only=True), ty)
        a = ch.choice(bound)
        if ty == FLOAT:
            op = ch.choice(["+", "-", "*", "min", "max", "neg"])
        else:
            op = ch.choice(["+", "-", "*", "min", "max"] + (["band", "bor", "bxor"] if feat.bitops else []) + ["/", "%"] +
                           (["neg"] if ty == NUMBER else []))
        if op == "neg":
            return Fn("neg", [a], ty)
        if op in ("/", "%"):
            d = ch.int(2, 5)
            if ty == NUMBER and ch.bool(0.3):
                d = -d
            return Fn(op, [a, Const(d, ty)], ty)
        b = self.gen_expr(ty, env, depth + 1, allow_fn)
        return Fn(op, [a, b] if ch.bool(0.5) else [b, a], ty)

    def gen_cmp(self, env):
        ch = self.ch
        keys = [k for k in (NUMBER, UNSIGNED, FLOAT, SYMBOL) if env.get(k)]
        if not keys:
            return None
        ty = ch.choice(keys)
        a = ch.choice(env[ty])
        op = ch.choice(["!=", "<", "<=", ">", ">=", "="])
        if ch.bool(0.5) and len(env[ty]) > 1:
            b = ch.choice([v for v in env[ty] if v is not a])
        else:
            b = self.gen_expr(ty, env, 1)
            if isinstance(b, Var) and b is a:
                b = Const(gen_value(ch, ty, self.feat, small_only=True), ty)
        return Cmp(op, a, b, ty) if ch.bool(0.7) else Cmp(op, b, a, ty)

    def gen_neg(self, env, lower, allow_wild=True):
        ch = self.ch
        cands = [r for r in lower if len(r.types) > 0 or ch.bool(0.3)]
        if not cands:
            return None
        rel = ch.choice(cands)
        e2 = {k: list(v) for k, v in env.items()}
        args = []
        for ty in rel.types:
            bound = e2.get(tname(ty), [])
            k = ch.weighted([(6, "old" if bound else "const"), (2, "const"), (1, "wild" if allow_wild else "const")])
            if k == "old":
                args.append(ch.choice(bound))
            elif k == "const":
                args.append(Const(gen_value(ch, ty, self.feat, small_only=True), ty))
            else:
                args.append(Wild(ty))
        return Neg(Atom(rel.name, args))

    def gen_agg(self, env, lower, allow_complex=True):
        """returns (Cmp binding literal, result var) or None"""
        ch = self.ch
        numeric = (NUMBER, UNSIGNED, FLOAT)
        cands = [r for r in lower if len(r.types) > 0]
        if not cands:
            return None
        rel = ch.choice(cands)
        op = ch.weighted([(3, "count"), (3, "sum"), (2, "min"), (2, "max"), (1, "mean")])
        inner = {}
        locals_ = []
        args = []
        for ty in rel.types:
            key = tname(ty)
            outer = env.get(key, [])
            k = ch.weighted([(5, "local"), (3, "outer" if outer else "local"), (1, "const"),
                             (1, "oldlocal" if inner.get(key) else "local")])
            if k == "local":
                v = self.fresh(ty)
                inner.setdefault(key, []).append(v)
                locals_.append(v)
                args.append(v)
            elif k == "outer":
                args.append(ch.choice(outer))
            elif k == "oldlocal":
                args.append(ch.choice(inner[key]))
            else:
                args.append(Const(gen_value(ch, ty, self.feat, small_only=True), ty))
        body = [Atom(rel.name, args)]
        both = {k: list(env.get(k, [])) + list(inner.get(k, [])) for k in set(env) | set(inner)}
        # optional second atom joined through a local
        if ch.bool(0.25):
            rel2 = ch.choice(cands)
            before = {k: len(v) for k, v in both.items()}
            a2 = self.gen_atom_args(rel2, both, allow_wild=False)
            for k, v in both.items():
                for nv in v[before.get(k, 0):]:
                    inner.setdefault(k, []).append(nv)
                    locals_.append(nv)
            body.append(Atom(rel2.name, a2))
        if ch.bool(0.3):
            c = self.gen_cmp(inner if any(inner.values()) else both)
            if c is not None:
                # comparisons may mention outer vars too
                body.append(c)
        if ch.bool(0.15) and self.feat.negation:
            # no unnamed variable inside aggregate bodies (F7; `!r(x,_)` there is rejected as "Ungrounded variable _0")
            n = self.gen_neg(both, lower, allow_wild=False)
            if n is not None:
                body.append(n)
        if op == "count":
            tgt, rty = None, NUMBER
        else:
            want = [FLOAT] if op == "mean" else list(numeric)
            tys = [t for t in want if inner.get(t)]
            if not tys:
                op, tgt, rty = "count", None, NUMBER
            else:
                t = ch.choice(tys)
                v = ch.choice(inner[t])
                tgt = v
                if allow_complex and ch.bool(0.2) and self.feat.functors:
                    c = Const(gen_value(ch, t, self.feat, small_only=True), t)
                    tgt = Fn(ch.choice(["+", "*", "max"]), [v, c], t)
                rty = t
        z = self.fresh(rty)
        agg = Agg(op, tgt, body, rty, locals_)
        return Cmp("=", z, agg, rty), z

    def gen_rule(self, head_rel, lower, group, want_rec, gi):
        ch, feat = self.ch, self.feat
        env = {}
        body = []
        natoms = ch.int(1, feat.max_atoms)
        rels_all = list(lower) + list(group)
        for i in range(natoms):
            if i == 0 and want_rec:
                rel = ch.choice(group)
            elif group and ch.bool(0.25):
                rel = ch.choice(rels_all)
            else:
                rel = ch.choice(lower) if lower else ch.choice(rels_all)
            body.append(Atom(rel.name, self.gen_atom_args(rel, env)))
        rec_rule = bool(group)
        allow_fn = not rec_rule
        # variables grounded by positive atoms; only these are injected into aggregate bodies (a variable that
        # is grounded through `v = <aggregate>` and injected into another aggregate trips an assertion in
        # MaterializeAggregationQueries on the unchanged tree -- finding F14, owned by C14)
        # (same family: a variable grounded only inside a record pattern `r([x,y])` is reported as "Ungrounded
        # variable" when injected) -> inject only direct arguments of positive atoms
        env_atoms = {}
        for at in body:
            for a in at.args:
                if isinstance(a, Var) and a not in env_atoms.get(tname(a.ty), []):
                    env_atoms.setdefault(tname(a.ty), []).append(a)
        if feat.ineq_clusters and feat.constraints and ch.bool(0.3):
            # 2-3 inequalities on the attributes of ONE atom (index selection folds them into a range query)
            for at in body:
                nums = [a for a in at.args if isinstance(a, Var) and a.ty in (NUMBER, UNSIGNED, FLOAT)]
                if len(nums) >= 2 or (nums and ch.bool(0.3)):
                    for v in ch.sample(nums, min(len(nums), ch.int(2, 3))) if len(nums) >= 2 else nums * 2:
                        op = ch.choice([">=", ">", "<", "<=", "!="])
                        other = [w for w in env.get(v.ty, []) if w is not v]
                        rhs = ch.choice(other) if other and ch.bool(0.3) else Const(gen_value(ch, v.ty, feat, small_only=not ch.bool(0.2)), v.ty)
                        body.append(Cmp(op, v, rhs, v.ty) if ch.bool(0.75) else Cmp({">=": "<=", ">": "<", "<": ">", "<=": ">=", "!=": "!="}[op], rhs, v, v.ty))
                    break
        if feat.casts and feat.constraints and ch.bool(0.15):
            # the same operands compared as signed and as unsigned (as() re-interprets the bits)
            for src, dst in ((NUMBER, UNSIGNED), (UNSIGNED, NUMBER)):
                vs = env.get(src, [])
                if len(vs) >= 2:
                    # (both operands are variables: a numeric constant inside as() is typed by the target type)
                    a = ch.choice(vs)
                    b = ch.choice([w for w in vs if w is not a])
                    op = ch.choice(["<", "<=", ">", ">="])
                    if ch.bool(0.6):
                        body.append(Cmp(op, a, b, src))
                    body.append(Cmp(op, Fn("as", [a], dst, src), Fn("as", [b], dst, src), dst))
                    break
        nextra = ch.int(0, 3)
        complex_used = False
        agg_outer_used = set()
        for _ in range(nextra):
            kinds = []
            if feat.constraints:
                kinds.append((3, "cmp"))
            if feat.negation and lower:
                kinds.append((3, "neg"))
            if feat.functors:
                kinds.append((2, "bind"))
            if feat.aggregates and lower:
                kinds.append((2, "agg"))
            if feat.ranges:
                kinds.append((2, "range"))
            if feat.disjunctions and feat.constraints:
                kinds.append((2, "or"))
            if not kinds:
                break
            k = ch.weighted(kinds)
            lit = None
            if k == "cmp":
                lit = self.gen_cmp(env)
            elif k == "neg":
                lit = self.gen_neg(env, lower)
            elif k == "bind":
                keys = [t for t in self.base if env.get(t)]
                if keys:
                    ty = ch.choice(keys)
                    e = self.gen_expr(ty, env, 0, allow_fn=True)
                    if isinstance(e, Fn):
                        if rec_rule and not self._bounded_in_rec(e):
                            e = None
                        if e is not None:
                            z = self.fresh(ty)
                            lit = Cmp("=", z, e, ty) if ch.bool(0.7) else Cmp("=", e, z, ty)
                            env.setdefault(ty, []).append(z)
            elif k == "range":
                # (number only: for an unsigned variable bound solely by range() over untyped constants the overload resolution
                # of min/max reports "no valid overloads" -- a limitation of type inference, outside the properties here)
                ty = NUMBER
                if NUMBER not in self.base:
                    continue
                lo = ch.int(-3, 4)
                n = ch.int(0, 5)
                step = ch.int(1, 3)
                args = [Const(lo, ty), Const(lo + n, ty)] + ([Const(step, ty)] if ch.bool(0.4) else [])
                if ty == NUMBER and ch.bool(0.25):
                    # descending range
                    args = [Const(lo + n, ty), Const(lo, ty)] + ([Const(-step, ty)] if len(args) == 3 else [])
                z = self.fresh(ty)
                lit = Cmp("=", z, Fn("range", args, ty), ty)
                env.setdefault(ty, []).append(z)
            elif k == "or":
                alts = []
                for _a in range(ch.int(2, 3)):
                    conj = [c for c in (self.gen_cmp(env) for _c in range(ch.int(1, 2))) if c is not None]
                    if conj:
                        alts.append(conj)
                if len(alts) >= 2:
                    lit = Or(alts)
            elif k == "agg":
                # at most one aggregate with a non-variable target per clause: two of them make
                # SimplifyAggregateTargetExpression pick the same fresh name and the translator asserts (F16, owned by C14)
                # aggregates of one clause mention disjoint sets of outer variables: souffle's "Mutually dependent
                # aggregate" heuristic rejects e.g. `count:{e(x), x != y}, count:{e(y), y != x}` with x, y outer (F19, C13)
                env_agg = {k: [v for v in vs if v.name not in agg_outer_used] for k, vs in env_atoms.items()}
                if rec_rule:
                    # known finding F25 (C01): an outer variable injected into a multi-literal aggregate body inside a recursive
                    # rule makes the materialised aggregate sub-clause depend on the recursive relation itself; souffle then
                    # evaluates the aggregate over a partial relation. No injection in recursive rules (counted via the tag).
                    env_agg = {}
                    self.P.tags.add("F25_excluded")
                r = self.gen_agg(env_agg, lower, allow_complex=not complex_used)
                if r is not None:
                    lit, z = r
                    outer_names = {v.name for vs in env_atoms.values() for v in vs}
                    agg_outer_used |= (term_vars(lit.rhs) & outer_names)
                    if lit.rhs.target is not None and not isinstance(lit.rhs.target, Var):
                        complex_used = True
                    env.setdefault(tname(z.ty), []).append(z)
            if lit is not None:
                body.append(lit)
        # head
        hargs = []
        for ty in head_rel.types:
            counter = False
            if rec_rule and feat.counter_recursion and ty in (NUMBER, UNSIGNED) and env.get(ty) and ch.bool(0.15):
                counter = True
            if counter:
                v = ch.choice(env[ty])
                cap = ch.int(3, 8)
                body.append(Cmp("<", v, Const(cap, ty), ty))
                if ty == NUMBER:
                    body.append(Cmp(">=", v, Const(-3, ty), ty))
                hargs.append(Fn("+", [v, Const(ch.int(1, 2), ty)], ty))
            else:
                hargs.append(self.gen_expr(ty, env, 0, allow_fn=allow_fn))
        rule = Rule(Atom(head_rel.name, hargs), body)
        if feat.multihead and hargs and ch.bool(0.15):
            rule.extra_heads.append(Atom(head_rel.name, [self.gen_expr(ty, env, 0, allow_fn=allow_fn) for ty in head_rel.types]))
        rule.order = ch.shuffle(list(range(len(body)))) if ch.bool(0.6) else list(range(len(body)))
        if rec_rule:
            rule.tags.add("rec")
        return rule

    def _bounded_in_rec(self, e):
        """functors whose result set is finite whatever the inputs (safe in recursive rules)"""
        return e.op in ("min", "max", "band", "%") and e.ty in (NUMBER, UNSIGNED) and all(
            isinstance(a, (Var, Const)) for a in e.args)

    def generate(self):
        self.gen_types()
        self.gen_edb()
        self.gen_groups()
        return self.P


def term_vars(t, acc=None):
    """names of all variables occurring in a term/literal (including inside aggregates)"""
    acc = set() if acc is None else acc
    if isinstance(t, Var):
        acc.add(t.name)
    elif isinstance(t, (Fn, RecInit)):
        for a in t.args:
            term_vars(a, acc)
    elif isinstance(t, Agg):
        if t.target is not None:
            term_vars(t.target, acc)
        for l in t.body:
            term_vars(l, acc)
    elif isinstance(t, Atom):
        for a in t.args:
            term_vars(a, acc)
    elif isinstance(t, Neg):
        term_vars(t.atom, acc)
    elif isinstance(t, Cmp):
        term_vars(t.lhs, acc)
        term_vars(t.rhs, acc)
    elif isinstance(t, Or):
        for alt in t.alts:
            for l in alt:
                term_vars(l, acc)
    return acc


def generate(ch, feat=None):
    return Gen(ch, feat or Feat()).generate()


def add_agg_only(P, ch):
    """adds an output relation whose rules consist of ONE aggregate and nothing else (the aggregate is then the outermost operation
    of the rule): `qa(c, v) :- v = OP y : { E(.., c, .., y, ..), y CMP d }` -- a column bound to a constant that occurs in the data, a
    residual condition that an index cannot answer, and in half of the rules chosen so that the bound range is non-empty while NO
    tuple passes the residual condition (min/max/mean over nothing: the rule must not fire). Returns the relation name or None."""
    cands = []
    for n in P.order:
        rel = P.rels[n]
        idx = [i for i, t in enumerate(rel.types) if t == NUMBER]
        if rel.kind == "edb" and len(idx) >= 2 and rel.facts:
            cands.append((rel, idx))
    if not cands:
        return None
    rel, idx = ch.choice(cands)
    name = "q%d" % (900 + len(P.order))   # (q<digits>: renamed by prefix_program like every generated relation)
    q = Rel(name, [NUMBER, NUMBER], "idb")
    q.group = len(P.groups)
    P.add_rel(q)
    P.groups.append([name])
    for k in range(ch.int(1, 3)):
        i, j = ch.sample(idx, 2)
        c = ch.choice(sorted({t[i] for t in rel.facts}))
        ys = sorted({t[j] for t in rel.facts if t[i] == c})
        y = Var("y%d" % k, NUMBER)
        args = []
        for p_, ty in enumerate(rel.types):
            args.append(Const(c, NUMBER) if p_ == i else y if p_ == j else Var("w%d_%d" % (k, p_), ty))
        locals_ = [a for a in args if isinstance(a, Var)]
        kind = ch.weighted([(3, "none_passes"), (2, "some_pass"), (1, "no_filter")])
        body = [Atom(rel.name, args)]
        if kind == "none_passes":
            if len(ys) == 1 and ch.bool(0.5):
                body.append(Cmp("!=", y, Const(ys[0], NUMBER), NUMBER))
            elif ys[-1] < I32_MAX - 1 and ch.bool(0.5):
                body.append(Cmp(">", y, Const(ys[-1], NUMBER), NUMBER))
            else:
                body.append(Cmp("<", Fn("+", [y, Const(0, NUMBER)], NUMBER), Const(ys[0], NUMBER), NUMBER))
        elif kind == "some_pass":
            body.append(Cmp(ch.choice(["!=", ">=", "<"]), y, Const(ch.choice(ys), NUMBER), NUMBER))
        op = ch.weighted([(3, "min"), (3, "max"), (1, "sum"), (1, "count")])
        v = Var("v%d" % k, NUMBER)
        agg = Agg(op, None if op == "count" else y, body, NUMBER, locals_)
        r = Rule(Atom(name, [Const(c, NUMBER), v]), [Cmp("=", v, agg, NUMBER)])
        r.tags.add("agg_only")
        P.rules.append(r)
    return name


# ------------------------------------------------------------------------------------------------
# printing

def fmt_const(v, ty, in_file=False):
    if isinstance(ty, AdtT):
        ftys = dict(ty.branches)[v[0][1:]]
        if not ftys:
            return v[0] if in_file else v[0] + "()"
        return "%s(%s)" % (v[0], ", ".join(fmt_const(x, ft, in_file) for x, ft in zip(v[1:], ftys)))
    if isinstance(ty, RecT):
        if v is None:
            return "nil"
        return "[" + ", ".join(fmt_const(x, ft, in_file) for x, ft in zip(v, ty.fields)) + "]"
    if ty == SYMBOL:
        return v if in_file else '"%s"' % v
    if ty == FLOAT:
        s = repr(float(v))
        return s
    return str(v)


FN_INFIX = {"+": "+", "-": "-", "*": "*", "/": "/", "%": "%", "^": "^", "band": "band", "bor": "bor", "bxor": "bxor",
            "bshl": "bshl", "bshr": "bshr", "bshru": "bshru", "land": "land", "lor": "lor", "lxor": "lxor"}


def fmt_term(t):
    if isinstance(t, Var):
        return t.name
    if isinstance(t, Const):
        if getattr(t, "spelling", None) is not None:
            return t.spelling
        s = fmt_const(t.val, t.ty)
        return s
    if isinstance(t, Wild):
        return "_"
    if isinstance(t, AdtInit):
        return "$%s(%s)" % (t.branch, ", ".join(fmt_term(a) for a in t.args))
    if isinstance(t, RecInit):
        return "[" + ", ".join(fmt_term(a) for a in t.args) + "]"
    if isinstance(t, Fn):
        if t.op in FN_INFIX and len(t.args) == 2:
            return "(%s %s %s)" % (fmt_term(t.args[0]), FN_INFIX[t.op], fmt_term(t.args[1]))
        if t.op == "neg":
            return "(-(%s))" % fmt_term(t.args[0])
        if t.op == "as":
            return "as(%s, %s)" % (fmt_term(t.args[0]), tname(t.ty))
        return "%s(%s)" % (t.op, ", ".join(fmt_term(a) for a in t.args))
    if isinstance(t, Agg):
        b = ", ".join(fmt_lit(l) for l in t.body)
        if t.op == "count":
            return "count : { %s }" % b
        return "%s %s : { %s }" % (t.op, fmt_term(t.target), b)
    raise TypeError(t)


def fmt_lit(l):
    if isinstance(l, Atom):
        return "%s(%s)" % (l.rel, ", ".join(fmt_term(a) for a in l.args))
    if isinstance(l, Neg):
        return "!" + fmt_lit(l.atom)
    if isinstance(l, Cmp):
        return "%s %s %s" % (fmt_term(l.lhs), l.op, fmt_term(l.rhs))
    if isinstance(l, Or):
        return "(" + " ; ".join(", ".join(fmt_lit(x) for x in alt) for alt in l.alts) + ")"
    raise TypeError(l)


def fmt_rule(r):
    head = ", ".join(fmt_lit(h) for h in [r.head] + list(getattr(r, "extra_heads", ())))
    if not r.body:
        return head + "."
    s = "%s :- %s." % (head, ", ".join(fmt_lit(r.body[i]) for i in r.order))
    if r.plan:
        s += "\n" + r.plan
    return s


def fmt_decl(rel):
    s = ".decl %s(%s)" % (rel.name, ", ".join("%s:%s" % (a, tname(t)) for a, t in zip(rel.attrs, rel.types)))
    if rel.quals:
        s += " " + " ".join(rel.quals)
    if rel.extra_decl:
        s += " " + rel.extra_decl
    return s


def to_souffle(P, with_io=True):
    """returns (program text, {facts file name: text})"""
    out = []
    for rt in P.rectypes:
        if isinstance(rt, AdtT):
            out.append(".type %s = %s" % (rt.name, " | ".join("%s {%s}" % (b, ", ".join("f%d:%s" % (i, tname(t)) for i, t in enumerate(fts)))
                                                               for b, fts in rt.branches)))
            continue
        out.append(".type %s = [%s]" % (rt.name, ", ".join("f%d:%s" % (i, tname(t)) for i, t in enumerate(rt.fields))))
    facts = {}
    for n in P.order:
        rel = P.rels[n]
        out.append(fmt_decl(rel))
        if rel.kind == "edb":
            if rel.from_file:
                if with_io:
                    out.append(".input %s" % n)
                facts[n + ".facts"] = "".join(
                    "\t".join(fmt_const(v, t, True) for v, t in zip(tp, rel.types)) + "\n" for tp in rel.facts)
            else:
                for tp in rel.facts:
                    out.append("%s(%s)." % (n, ", ".join(fmt_const(v, t) for v, t in zip(tp, rel.types))))
        if with_io and rel.output:
            out.append(".output %s" % n)
    for r in P.rules:
        out.append(fmt_rule(r))
    for n in P.order:
        rel = P.rels[n]
        for tp in getattr(rel, "late_facts", ()):
            out.append("%s(%s)." % (n, ", ".join(fmt_const(v, t) for v, t in zip(tp, rel.types))))
    out.extend(P.directives)
    return "\n".join(out) + "\n", facts


def add_queries(P, ch, feat, n=1):
    """append output relations q<i>(free columns) :- R(const/var...) that query an existing relation with constants"""
    cands = [P.rels[x] for x in P.order if len(P.rels[x].types) > 0 and P.rels[x].kind == "idb"]
    added = []
    if not cands:
        return added
    for i in range(n):
        rel = ch.choice(cands)
        args, free = [], []
        for ty in rel.types:
            if ch.bool(0.5) and not isinstance(ty, RecT):
                args.append(Const(gen_value(ch, ty, feat, small_only=True), ty))
            else:
                v = Var("q%d_%d" % (i, len(free)), ty)
                free.append(v)
                args.append(v)
        q = Rel("q%d" % i, [v.ty for v in free], "idb")
        q.group = len(P.groups)
        P.add_rel(q)
        P.groups.append([q.name])
        P.rules.append(Rule(Atom(q.name, list(free)), [Atom(rel.name, args)]))
        added.append(q.name)
    return added


# ------------------------------------------------------------------------------------------------
# recursion-heavy workloads (used where the property is about the fixpoint loop itself: C09, C23, C03, C22 ...)

def gen_recursive(ch, max_nodes=9, max_edges=18, npatterns=(1, 3), allow_neg=True, flag=False, ring=False, rich_filters=False):
    """random graph EDB + 1-3 recursive patterns (linear / non-linear transitive closure, bounded counters, mutual
    recursion, same-generation, reachability with a negated lower-stratum filter), each with small random variations.
    All strata need several iterations by construction."""
    P = Program()
    N = ch.int(3, max_nodes)
    ne = ch.int(N - 1, max_edges)
    e = Rel("e0", [NUMBER, NUMBER], "edb")
    seen = set()
    # a path backbone so that chains are long, plus random extra edges (cycles allowed)
    perm = ch.shuffle(list(range(N)))
    blen = ch.int(2, N)
    for i in range(blen - 1):
        seen.add((perm[i], perm[i + 1]))
    for _ in range(ne):
        seen.add((ch.int(0, N - 1), ch.int(0, N - 1)))
    e.facts = sorted(seen)
    e.from_file = ch.bool(0.3)
    e.output = False
    P.add_rel(e)
    s = Rel("e1", [NUMBER], "edb")
    s.facts = sorted({(ch.int(0, N - 1),) for _ in range(ch.int(1, 3))})
    s.output = False
    P.add_rel(s)
    blocked = Rel("e2", [NUMBER], "edb")
    blocked.facts = sorted({(ch.int(0, N - 1),) for _ in range(ch.int(0, 2))})
    blocked.output = False
    P.add_rel(blocked)
    X, Y, Z, W, A, B = (Var(n, NUMBER) for n in ("x", "y", "z", "w", "a", "b"))
    if rich_filters:
        # a nullary input relation (present or empty) for negated nullary atoms
        nl = Rel("e3", [], "edb")
        nl.facts = [()] if ch.bool(0.4) else []
        nl.output = False
        P.add_rel(nl)
    n = ch.int(npatterns[0], npatterns[1])
    idx = 0

    def new_rel(ar, group, rec=True):
        nonlocal idx
        r = Rel("r%d" % idx, [NUMBER] * ar, "idb")
        idx += 1
        r.group = group
        r.recursive = rec
        P.add_rel(r)
        return r

    for _ in range(n):
        g = len(P.groups)
        binaries = [P.rels[x] for x in P.order if len(P.rels[x].types) == 2 and P.rels[x].group != g]
        base = ch.choice(binaries)   # an earlier binary relation (edge relation or an earlier closure)
        kind = ch.weighted([(3, "tc"), (2, "tc2"), (2, "counter"), (2, "mutual"), (2, "sg"), (2, "reach")] + ([(2, "flag")] if flag else []) + ([(3, "ring")] if ring else []))
        if kind in ("tc", "tc2"):
            r = new_rel(2, g)
            P.groups.append([r.name])
            P.rules.append(Rule(Atom(r.name, [X, Y]), [Atom(base.name, [X, Y])]))
            if kind == "tc":
                body = [Atom(r.name, [X, Y]), Atom(base.name, [Y, Z])]
                if ch.bool(0.5):
                    body.reverse()
            else:
                body = [Atom(r.name, [X, Y]), Atom(r.name, [Y, Z])]
                if ch.bool(0.3):
                    body.append(Atom(base.name, [X, W]))
            if allow_neg and ch.bool(0.3):
                body.append(Neg(Atom("e2", [Y])))
            if ch.bool(0.25):
                body.append(Cmp("!=", X, Z, NUMBER))
            if rich_filters and ch.bool(0.4):
                # a comparison between a body-only variable and a head variable, in either order
                a, b = ch.choice([(Y, X), (Y, Z), (X, Y), (Z, Y)])
                body.append(Cmp(ch.choice(["!=", "<=", ">", "!="]), a, b, NUMBER))
            if rich_filters and allow_neg and ch.bool(0.25):
                body.append(Neg(Atom("e3", [])))
            rule = Rule(Atom(r.name, [X, Z]), body)
            rule.tags.add("rec")
            P.rules.append(rule)
            if kind == "tc" and ch.bool(0.3):
                # a second recursive rule (left-linear variant)
                rule2 = Rule(Atom(r.name, [X, Z]), [Atom(base.name, [X, Y]), Atom(r.name, [Y, Z])])
                rule2.tags.add("rec")
                P.rules.append(rule2)
        elif kind == "counter":
            r = new_rel(2, g)
            P.groups.append([r.name])
            cap = ch.int(3, 9)
            step = ch.int(1, 2)
            P.rules.append(Rule(Atom(r.name, [X, Const(0, NUMBER)]), [Atom("e1", [X])]))
            rule = Rule(Atom(r.name, [X, Fn("+", [Y, Const(step, NUMBER)], NUMBER)]),
                        [Atom(r.name, [X, Y]), Cmp("<", Y, Const(cap, NUMBER), NUMBER)])
            rule.tags.add("rec")
            P.rules.append(rule)
        elif kind == "mutual":
            ev = new_rel(1, g)
            od = new_rel(1, g)
            P.groups.append([ev.name, od.name])
            P.rules.append(Rule(Atom(ev.name, [X]), [Atom("e1", [X])]))
            r1 = Rule(Atom(od.name, [Y]), [Atom(ev.name, [X]), Atom(base.name, [X, Y])])
            r2 = Rule(Atom(ev.name, [Y]), [Atom(od.name, [X]), Atom(base.name, [X, Y])])
            for rr in (r1, r2):
                rr.tags.add("rec")
                P.rules.append(rr)
        elif kind == "sg":
            r = new_rel(2, g)
            P.groups.append([r.name])
            P.rules.append(Rule(Atom(r.name, [X, Y]), [Atom(base.name, [Z, X]), Atom(base.name, [Z, Y])]))
            rule = Rule(Atom(r.name, [X, Y]), [Atom(base.name, [A, X]), Atom(r.name, [A, B]), Atom(base.name, [B, Y])])
            rule.tags.add("rec")
            P.rules.append(rule)
        elif kind == "ring":
            # a dependency ring of 3-4 relations (a0 -> a1 -> .. -> a0): each relation is idle for several iterations between
            # the rounds in which it grows
            k = ch.int(3, 4)
            rels = [new_rel(1, g) for _ in range(k)]
            P.groups.append([r.name for r in rels])
            P.rules.append(Rule(Atom(rels[0].name, [X]), [Atom("e1", [X])]))
            for q in range(k):
                src, dst = rels[q], rels[(q + 1) % k]
                body = [Atom(src.name, [X]), Atom(base.name, [X, Y])] if (q == k - 1 or ch.bool(0.4)) else [Atom(src.name, [Y])]
                rr = Rule(Atom(dst.name, [Y]), body)
                rr.tags.add("rec")
                P.rules.append(rr)
        elif kind == "flag":
            # reachability gated by a nullary relation of the same stratum that becomes true in some later iteration
            r = new_rel(1, g)
            fl = new_rel(0, g)
            P.groups.append([r.name, fl.name])
            P.rules.append(Rule(Atom(r.name, [X]), [Atom("e1", [X])]))
            trig = [Atom(r.name, [X]), Atom(base.name, [X, Y])]
            if ch.bool(0.5):
                trig.append(Atom(r.name, [Y]))
            if ch.bool(0.5):
                trig.append(Cmp("!=", X, Y, NUMBER))
            fr = Rule(Atom(fl.name, []), trig)
            fr.tags.add("rec")
            P.rules.append(fr)
            if ch.bool(0.6):
                # some progress that does not need the flag
                pr = Rule(Atom(r.name, [Y]), [Atom(r.name, [X]), Atom(base.name, [X, Y]), Cmp("<", X, Y, NUMBER)])
                pr.tags.add("rec")
                P.rules.append(pr)
            body = [Atom(r.name, [X]), Atom(fl.name, []), Atom(base.name, [X, Y])]
            if ch.bool(0.3):
                body = [body[1], body[0], body[2]]
            rule = Rule(Atom(r.name, [Y]), body)
            rule.tags.add("rec")
            P.rules.append(rule)
            if ch.bool(0.3):
                rule2 = Rule(Atom(r.name, [X]), [Atom(base.name, [X, Y]), Atom(r.name, [Y]), Atom(fl.name, [])])
                rule2.tags.add("rec")
                P.rules.append(rule2)
        else:  # reach
            r = new_rel(1, g)
            P.groups.append([r.name])
            P.rules.append(Rule(Atom(r.name, [X]), [Atom("e1", [X])]))
            body = [Atom(r.name, [X]), Atom(base.name, [X, Y])]
            if allow_neg and ch.bool(0.5):
                body.append(Neg(Atom("e2", [Y])))
            if rich_filters and ch.bool(0.4):
                body.append(Cmp(ch.choice(["!=", "<=", ">"]), X, Y, NUMBER))
            if rich_filters and allow_neg and ch.bool(0.25):
                body.append(Neg(Atom("e3", [])))
            rule = Rule(Atom(r.name, [Y]), body)
            rule.tags.add("rec")
            P.rules.append(rule)
    for r in P.rules:
        r.order = list(range(len(r.body)))
    return P


# ------------------------------------------------------------------------------------------------
# helpers for shape injection (deep copies with variable renaming, alternative constant spellings)

def copy_term(t, ren):
    if isinstance(t, Var):
        return Var(ren(t.name), t.ty)
    if isinstance(t, Const):
        return Const(t.val, t.ty, getattr(t, "spelling", None))
    if isinstance(t, Wild):
        return Wild(t.ty)
    if isinstance(t, Fn):
        return Fn(t.op, [copy_term(a, ren) for a in t.args], t.ty, t.oty)
    if isinstance(t, AdtInit):
        return AdtInit(t.branch, [copy_term(a, ren) for a in t.args], t.ty)
    if isinstance(t, RecInit):
        return RecInit([copy_term(a, ren) for a in t.args], t.ty)
    if isinstance(t, Agg):
        return Agg(t.op, copy_term(t.target, ren) if t.target is not None else None, [copy_lit(l, ren) for l in t.body], t.ty,
                   [Var(ren(v.name), v.ty) for v in t.locals])
    raise TypeError(t)


def copy_lit(l, ren):
    if isinstance(l, Atom):
        return Atom(l.rel, [copy_term(a, ren) for a in l.args])
    if isinstance(l, Neg):
        return Neg(copy_lit(l.atom, ren))
    if isinstance(l, Cmp):
        return Cmp(l.op, copy_term(l.lhs, ren), copy_term(l.rhs, ren), l.ty)
    if isinstance(l, Or):
        return Or([[copy_lit(x, ren) for x in alt] for alt in l.alts])
    raise TypeError(l)


def copy_rule(r, ren=lambda n: n, head_rel=None):
    h = copy_lit(r.head, ren)
    if head_rel:
        h.rel = head_rel
    nr = Rule(h, [copy_lit(l, ren) for l in r.body], list(r.order))
    nr.tags = set(r.tags)
    for eh in getattr(r, "extra_heads", ()):
        e2 = copy_lit(eh, ren)
        if head_rel:
            e2.rel = head_rel
        nr.extra_heads.append(e2)
    return nr


def alt_spelling(ch, v, ty):
    """another way of writing the numeric constant v in program text (None if there is none)"""
    if ty in (NUMBER, UNSIGNED) and isinstance(v, int) and v >= 0:
        k = ch.int(0, 2)
        if k == 0:
            return "0x%x" % v
        if k == 1:
            return "0b" + bin(v)[2:]
        return "0x%X" % v if v > 9 else "0x%x" % v
    if ty == FLOAT:
        base = repr(float(v))
        if "e" in base or "inf" in base or "nan" in base:
            return None
        return base + "0" * ch.int(1, 3)
    return None


import re as _re
_IDENT = _re.compile(r'"[^"]*"|\b(?:e|r|q|Rec|Adt)\d+\b|\bBr\d+x\d+\b')
_BRANCH = _re.compile(r'\$(Br\d+x\d+)\b')


def prefix_program(text, facts, pfx):
    """rename every relation / record type (e<N>, r<N>, q<N>, Rec<N>) of a dlgen program by prepending pfx; string constants
    are left alone. Used to bundle several independent programs into one file."""
    def sub(m):
        t = m.group(0)
        return t if t.startswith('"') else pfx + t
    # ADT values in fact files name their branch ($Br0x1(...)): the branch is renamed there as well (no generated symbol starts with $Br)
    return _IDENT.sub(sub, text), {pfx + k: _BRANCH.sub(lambda m: "$" + pfx + m.group(1), v) for k, v in facts.items()}
