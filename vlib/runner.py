"""Run a generated program through souffle (interpreter or compiled) and collect the outputs."""
import os, shutil
from .common import Scratch, souffle, write_files, read_outputs, Inconclusive, Violation, run, SOUFFLE
from .dlref import parse_rows


class ProgResult:
    def __init__(self, rr, outputs):
        self.rr, self.outputs = rr, outputs


def run_program(text, facts=None, args=(), env=None, timeout=20, keep=None, extra_files=None, stdin_data=None):
    """returns ProgResult; outputs: relation -> list of raw lines (None if the run failed)"""
    with Scratch("run") as d:
        files = {"p.dl": text}
        for k, v in (facts or {}).items():
            files[os.path.join("facts", k)] = v
        if extra_files:
            files.update(extra_files)
        write_files(d, files)
        os.makedirs(os.path.join(d, "facts"), exist_ok=True)
        os.makedirs(os.path.join(d, "out"), exist_ok=True)
        rr = souffle(["-F", "facts", "-D", "out"] + list(args) + ["p.dl"], cwd=d, timeout=timeout, env=env, stdin_data=stdin_data)
        outs = read_outputs(os.path.join(d, "out"))
        if keep:
            shutil.copytree(d, keep, dirs_exist_ok=True)
        return ProgResult(rr, outs)


def check_ok(res, what="souffle"):
    """classify a run that is expected to succeed"""
    rr = res.rr
    if rr.timeout:
        raise Inconclusive("timeout:" + what)
    if rr.rc != 0:
        raise Violation("%s failed on an accepted program: rc=%s\nstderr: %s" % (what, rr.rc, rr.err[-1500:]))
    return res


def typed_outputs(P, outs, names=None):
    """parse outputs into {rel: (set_of_tuples, n_lines)} using the program's declared types"""
    res = {}
    for n in (names or [x for x in P.order if P.rels[x].output]):
        lines = outs.get(n)
        if lines is None:
            res[n] = None
            continue
        rows = parse_rows(lines, P.rels[n].types)
        res[n] = (set(rows), len(rows))
    return res


def diff_sets(a, b, limit=5):
    miss = sorted(a - b, key=repr)[:limit]
    extra = sorted(b - a, key=repr)[:limit]
    return miss, extra
