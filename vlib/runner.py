"""Run a generated program through souffle (interpreter or compiled) and collect the outputs."""
import os, shutil
from .common import Scratch, souffle, write_files, read_outputs, Inconclusive, Violation, run, SOUFFLE
from .dlref import parse_rows


class ProgResult:
    def __init__(self, rr, outputs):
        self.rr, self.outputs = rr, outputs


def run_program(text, facts=None, args=(), env=None, timeout=20, keep=None, extra_files=None, stdin_data=None):
    """returns ProgResult; outputs: relation -> list of raw lines (None if the run failed)"""
    with Scratch("run") as d:
        files = {"p.dl": text}
        for k, v in (facts or {}).items():
            files[os.path.join("facts", k)] = v
        if extra_files:
            files.update(extra_files)
        write_files(d, files)
        os.makedirs(os.path.join(d, "facts"), exist_ok=True)
        os.makedirs(os.path.join(d, "out"), exist_ok=True)
        rr = souffle(["-F", "facts", "-D", "out"] + list(args) + ["p.dl"], cwd=d, timeout=timeout, env=env, stdin_data=stdin_data)
        outs = read_outputs(os.path.join(d, "out"))
        if keep:
            shutil.copytree(d, keep, dirs_exist_ok=True)
        return ProgResult(rr, outs)


def check_ok(res, what="souffle"):
    """classify a run that is expected to succeed"""
    rr = res.rr
    if rr.timeout:
        raise Inconclusive("timeout:" + what)
    if rr.rc != 0:
        raise Violation("%s failed on an accepted program: rc=%s\nstderr: %s" % (what, rr.rc, rr.err[-1500:]))
    return res


def typed_outputs(P, outs, names=None):
    """parse outputs into {rel: (set_of_tuples, n_lines)} using the program's declared types"""
    res = {}
    for n in (names or [x for x in P.order if P.rels[x].output]):
        lines = outs.get(n)
        if lines is None:
            res[n] = None
            continue
        rows = parse_rows(lines, P.rels[n].types)
        res[n] = (set(rows), len(rows))
    return res


def diff_sets(a, b, limit=5):
    miss = sorted(a - b, key=repr)[:limit]
    extra = sorted(b - a, key=repr)[:limit]
    return miss, extra


# ------------------------------------------------------------------------------------------------
# metamorphic / differential comparison of two ways of running (almost) the same program

def run_cfg(case, cfg, timeout=30):
    text = cfg.get("program", case["program"])
    res = run_program(text, case.get("facts"), args=cfg.get("args", ()), env=cfg.get("env"), timeout=timeout)
    return res


def classify_failure(res, label, case, accept_diag=None):
    """a run of an accepted program must exit 0"""
    rr = res.rr
    if rr.timeout:
        raise Inconclusive("timeout:" + label)
    if rr.rc != 0:
        if accept_diag and any(d in rr.err for d in accept_diag):
            from .common import Discard
            raise Discard("rejected:" + label)
        raise Violation("%s run failed: rc=%s\n%s" % (label, rr.rc, rr.err[-1200:]), {"case": case})


def compare_outputs(a, b, rels=None, la="base", lb="variant"):
    msgs = []
    names = rels if rels is not None else sorted(set(a) | set(b))
    for n in names:
        x, y = a.get(n), b.get(n)
        if x is None or y is None:
            if x is not y:
                msgs.append("%s: output file present only in %s" % (n, la if x is not None else lb))
            continue
        sx, sy = sorted(x), sorted(y)
        if sx != sy:
            setx, sety = set(x), set(y)
            miss, extra = sorted(setx - sety)[:5], sorted(sety - setx)[:5]
            if miss or extra:
                msgs.append("%s: only in %s %r; only in %s %r" % (n, la, miss, lb, extra))
            else:
                msgs.append("%s: same tuples but different multiplicities (%d vs %d lines)" % (n, len(x), len(y)))
        elif len(set(x)) != len(x):
            msgs.append("%s: duplicate tuples in both outputs" % n)
    return msgs


def differential(case, timeout=30, accept_diag=None):
    """case: program, facts, base{args,env}, variant{args,env[,program]}, relations (optional)"""
    a = run_cfg(case, case["base"], timeout)
    classify_failure(a, "base", case)
    b = run_cfg(case, case["variant"], timeout)
    classify_failure(b, "variant", case, accept_diag)
    msgs = compare_outputs(a.outputs, b.outputs, case.get("relations"))
    if msgs:
        raise Violation("outputs differ between base %r and variant %r:\n%s" % (
            case["base"], {k: v for k, v in case["variant"].items() if k != "program"}, "\n".join(msgs)), {"case": case})
    return a, b


def show(text, facts, what, args=(), env=None, timeout=20):
    """souffle --show=<what> (no evaluation); returns stdout or None"""
    with Scratch("show") as d:
        files = {"p.dl": text}
        for k, v in (facts or {}).items():
            files[os.path.join("facts", k)] = v
        write_files(d, files)
        rr = souffle(["--show=" + what, "-F", "facts"] + list(args) + ["p.dl"], cwd=d, timeout=timeout, env=env)
        if rr.timeout or rr.rc != 0:
            return None
        return rr.out
