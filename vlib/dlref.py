"""dlref: naive (not semi-naive) stratified bottom-up evaluation of a dlgen AST. Written for obviousness.
Raises OutOfDomain where the property texts leave behaviour undefined (overflow, /0, budgets...)."""
from fractions import Fraction
from .dlgen import Var, Const, Wild, Fn, RecInit, AdtInit, AdtT, Or, Agg, Atom, Neg, Cmp, RecT, NUMBER, UNSIGNED, FLOAT, SYMBOL, tname
from .refops import OutOfDomain, arith, compare, strlen, substr, chk_i, chk_f, f32, U32_MAX


class Budget:
    def __init__(self, steps=300000, tuples=20000, rounds=200):
        self.steps, self.tuples, self.rounds = steps, tuples, rounds

    def step(self, n=1):
        self.steps -= n
        if self.steps < 0:
            raise OutOfDomain("budget:steps")


def eval_term(t, env):
    if isinstance(t, Var):
        return env[t.name]
    if isinstance(t, Const):
        return t.val
    if isinstance(t, AdtInit):
        return ("$" + t.branch,) + tuple(eval_term(a, env) for a in t.args)
    if isinstance(t, RecInit):
        return tuple(eval_term(a, env) for a in t.args)
    if isinstance(t, Fn):
        a = [eval_term(x, env) for x in t.args]
        if t.op == "strlen":
            return strlen(a[0])
        if t.op == "substr":
            return substr(a[0], a[1], a[2])
        if t.op == "to_string":
            if t.oty == NUMBER or t.oty == UNSIGNED:
                return str(a[0])
            raise OutOfDomain("to_string float")
        if t.op == "as":
            # as(x, T) re-interprets the 32-bit pattern
            if t.oty == NUMBER and t.ty == UNSIGNED:
                return a[0] & U32_MAX
            if t.oty == UNSIGNED and t.ty == NUMBER:
                return a[0] - (1 << 32) if a[0] >= (1 << 31) else a[0]
            if t.oty == t.ty:
                return a[0]
            raise OutOfDomain("as() between %s and %s" % (t.oty, t.ty))
        return arith(t.op, t.oty, a)
    raise TypeError("cannot evaluate %r" % (t,))


def is_ground(t, env):
    if isinstance(t, Var):
        return t.name in env
    if isinstance(t, Const):
        return True
    if isinstance(t, Wild):
        return False
    if isinstance(t, (RecInit, Fn)):
        return all(is_ground(a, env) for a in t.args)
    if isinstance(t, Agg):
        return True
    return False


def match(t, val, env):
    """match term against value, extending env; returns new env or None"""
    if isinstance(t, Wild):
        return env
    if isinstance(t, Var):
        if t.name in env:
            return env if env[t.name] == val else None
        e = dict(env)
        e[t.name] = val
        return e
    if isinstance(t, Const):
        return env if t.val == val else None
    if isinstance(t, AdtInit):
        if val is None or val[0] != "$" + t.branch:
            return None
        for a, v in zip(t.args, val[1:]):
            env = match(a, v, env)
            if env is None:
                return None
        return env
    if isinstance(t, RecInit):
        if is_ground(t, env):
            return env if eval_term(t, env) == val else None
        if val is None:
            return None
        for a, v in zip(t.args, val):
            env = match(a, v, env)
            if env is None:
                return None
        return env
    if isinstance(t, Fn):
        return env if eval_term(t, env) == val else None
    raise TypeError(t)


class Evaluator:
    def __init__(self, P, budget=None, eqrel_closure=True):
        self.P = P
        self.b = budget or Budget()
        self.db = {}
        self.stage = {}
        self.stats = {"rounds": {}, "neg_filtered": 0, "agg_empty": 0, "agg_nonempty": 0, "destruct_match": 0,
                      "destruct_fail": 0, "rule_fired": 0}

    # ---- literals
    def solve(self, body, i, env):
        if i == len(body):
            yield env
            return
        l = body[i]
        self.b.step()
        if isinstance(l, Atom):
            rel = self.db.get(l.rel, ())
            has_rec = any(isinstance(a, RecInit) and not is_ground(a, env) for a in l.args)
            for tup in rel:
                self.b.step()
                e = env
                for a, v in zip(l.args, tup):
                    e = match(a, v, e)
                    if e is None:
                        break
                if e is None:
                    if has_rec:
                        self.stats["destruct_fail"] += 1
                    continue
                if has_rec:
                    self.stats["destruct_match"] += 1
                yield from self.solve(body, i + 1, e)
        elif isinstance(l, Neg):
            rel = self.db.get(l.atom.rel, ())
            found = False
            for tup in rel:
                self.b.step()
                e = env
                for a, v in zip(l.atom.args, tup):
                    e = match(a, v, e)
                    if e is None:
                        break
                if e is not None:
                    found = True
                    break
            if found:
                self.stats["neg_filtered"] += 1
            else:
                yield from self.solve(body, i + 1, env)
        elif isinstance(l, Or):
            for alt in l.alts:
                ok = False
                for _e in self.solve(alt, 0, env):
                    ok = True
                    break
                if ok:
                    yield from self.solve(body, i + 1, env)
                    break
        elif isinstance(l, Cmp) and l.op == "=" and isinstance(l.rhs, Fn) and l.rhs.op == "range":
            a = [eval_term(x, env) for x in l.rhs.args]
            lo, hi = a[0], a[1]
            step = a[2] if len(a) > 2 else (1 if lo <= hi else -1)
            if step == 0:
                raise OutOfDomain("range step 0")
            vals = []
            x = lo
            while (step > 0 and x < hi) or (step < 0 and x > hi):
                vals.append(x)
                x += step
                if len(vals) > 1000:
                    raise OutOfDomain("range too long")
            for v in vals:
                e = match(l.lhs, v, env)
                if e is not None:
                    yield from self.solve(body, i + 1, e)
        elif isinstance(l, Cmp):
            lhs, rhs = l.lhs, l.rhs
            if l.op == "=" and (isinstance(rhs, Agg) or isinstance(lhs, Agg)):
                agg, other = (rhs, lhs) if isinstance(rhs, Agg) else (lhs, rhs)
                val = self.eval_agg(agg, env)
                if val is None:
                    return
                e = match(other, val, env)
                if e is not None:
                    yield from self.solve(body, i + 1, e)
                return
            if l.op == "=":
                lg, rg = is_ground(lhs, env), is_ground(rhs, env)
                if lg and not rg:
                    e = match(rhs, eval_term(lhs, env), env)
                    if e is not None:
                        yield from self.solve(body, i + 1, e)
                    return
                if rg and not lg:
                    e = match(lhs, eval_term(rhs, env), env)
                    if e is not None:
                        yield from self.solve(body, i + 1, e)
                    return
            a, b = eval_term(lhs, env), eval_term(rhs, env)
            if compare(l.op, tname(l.ty), a, b):
                yield from self.solve(body, i + 1, env)
        else:
            raise TypeError(l)

    def eval_agg(self, agg, env):
        names = [v.name for v in agg.locals]
        seen = set()
        vals = []
        inner_env = dict(env)
        for n in names:
            inner_env.pop(n, None)
        for e in self.solve(agg.body, 0, inner_env):
            key = tuple(e.get(n) for n in names)
            if key in seen:
                continue
            seen.add(key)
            vals.append(eval_term(agg.target, e) if agg.target is not None else 1)
        if vals:
            self.stats["agg_nonempty"] += 1
        else:
            self.stats["agg_empty"] += 1
        if agg.op == "count":
            return len(vals)
        if agg.op == "sum":
            if agg.ty == NUMBER:
                return chk_i(sum(vals))
            if agg.ty == UNSIGNED:
                return sum(vals) & U32_MAX
            return self._exact_fsum(vals)
        if not vals:
            return None
        if agg.op == "min":
            return min(vals)
        if agg.op == "max":
            return max(vals)
        if agg.op == "mean":
            s = self._exact_fsum(vals)
            return chk_f(s / f32(float(len(vals))))
        raise KeyError(agg.op)

    def _exact_fsum(self, vals):
        """sum of floats is only order-independent if every partial sum is exact: require a coarse grid"""
        tot = Fraction(0)
        for v in vals:
            fr = Fraction(v)
            if fr.denominator > 64 or abs(fr) > 65536:
                raise OutOfDomain("float sum off grid")
            tot += fr
        if abs(tot) > 65536:
            raise OutOfDomain("float sum large")
        return chk_f(float(tot)) if tot != 0 else 0.0

    # ---- rules / strata
    def fire(self, rule):
        out = set()
        heads = [rule.head] + [h for h in getattr(rule, "extra_heads", ()) if h.rel == rule.head.rel]
        for e in self.solve(rule.body, 0, {}):
            for h in heads:
                out.add(tuple(eval_term(a, e) for a in h.args))
        return out

    def run(self):
        P = self.P
        for n in P.order:
            r = P.rels[n]
            self.db[n] = set(r.facts) if r.kind == "edb" else set(getattr(r, "late_facts", ()))
        for gi, group in enumerate(P.groups):
            rules = [r for r in P.rules if r.head.rel in group]
            rounds = 0
            while True:
                rounds += 1
                if rounds > self.b.rounds:
                    raise OutOfDomain("budget:rounds")
                new = {n: set() for n in group}
                for r in rules:
                    got = self.fire(r)
                    if got:
                        self.stats["rule_fired"] += 1
                    new[r.head.rel] |= got
                changed = False
                for n in group:
                    add = new[n] - self.db[n]
                    if add:
                        changed = True
                        self.db[n] |= add
                        for t in add:
                            self.stage[(n, t)] = rounds - 1     # Jacobi stage: 0 = derivable without the stratum's own relations
                    if "eqrel" in P.rels[n].quals and self._close_eqrel(n):
                        changed = True
                if sum(len(s) for s in self.db.values()) > self.b.tuples:
                    raise OutOfDomain("budget:tuples")
                if not changed:
                    break
            self.stats["rounds"][gi] = rounds - 1  # number of productive rounds
        return self.db

    def _close_eqrel(self, n):
        s = self.db[n]
        before = len(s)
        parent = {}

        def find(x):
            while parent.setdefault(x, x) != x:
                parent[x] = parent[parent[x]]
                x = parent[x]
            return x
        for a, b in s:
            ra, rb = find(a), find(b)
            if ra != rb:
                parent[ra] = rb
        classes = {}
        for x in list(parent):
            classes.setdefault(find(x), []).append(x)
        for cl in classes.values():
            for a in cl:
                for b in cl:
                    s.add((a, b))
        return len(s) != before


def evaluate(P, budget=None):
    ev = Evaluator(P, budget)
    db = ev.run()
    return db, ev.stats


# ------------------------------------------------------------------------------------------------
# parsing souffle's CSV output into typed values

def _split_top(s):
    parts, depth, cur = [], 0, []
    for c in s:
        if c in "[(":
            depth += 1
        elif c in "])":
            depth -= 1
        if c == "," and depth == 0:
            parts.append("".join(cur))
            cur = []
        else:
            cur.append(c)
    parts.append("".join(cur))
    return parts


def parse_value(text, ty):
    if isinstance(ty, AdtT):
        text = text.strip()
        for bname, ftys in ty.branches:
            tag = "$" + bname
            if (text == tag or text == tag + "()") and not ftys:
                return (tag,)
            if text.startswith(tag + "(") and text.endswith(")"):
                inner = text[len(tag) + 1:-1]
                # (an empty symbol is printed as nothing: `$B()` for a branch with one symbol field)
                parts = [""] if (inner == "" and len(ftys) == 1) else _split_top(inner)
                if len(parts) != len(ftys):
                    continue
                return (tag,) + tuple(parse_value(p.strip(" ") if ft != SYMBOL else (p[1:] if p.startswith(" ") else p), ft) for p, ft in zip(parts, ftys))
        raise ValueError("bad ADT text %r" % text)
    if isinstance(ty, RecT):
        if text == "nil":
            return None
        if not (text.startswith("[") and text.endswith("]")):
            raise ValueError("bad record text %r" % text)
        inner = text[1:-1]
        parts = _split_top(inner) if ty.fields else []
        if len(parts) != len(ty.fields):
            raise ValueError("record arity %r" % text)
        return tuple(parse_value(p.strip(" ") if not (ft == SYMBOL) else (p[1:] if p.startswith(" ") else p), ft)
                     for p, ft in zip(parts, ty.fields))
    if ty == NUMBER or ty == UNSIGNED:
        return int(text)
    if ty == FLOAT:
        return f32(float(text))
    return text


def parse_rows(lines, types):
    rows = []
    for ln in lines:
        if not types:
            rows.append(())
            continue
        cols = ln.split("\t")
        if len(cols) != len(types):
            raise ValueError("column count %r" % ln)
        rows.append(tuple(parse_value(c, t) for c, t in zip(cols, types)))
    return rows
