#!/bin/bash
# seeded_confirm.sh <PID> <k> <ctest regex> : confirm seeded defect k of the mutation agent for property PID in its scratch
# worktree /tmp/mut/PID: (1) demo passes on the unchanged tree, (2) patch applies and builds, (3) demo fails with the patch,
# (4) the given subset of the existing tests passes with the patch; then store it under /verif/seeded/PID-k/ and revert.
pid=$1; k=$2; rx=$3
wt=/tmp/mut/$pid; m=$wt/mutation; out=/verif/seeded/$pid-$k; log=/tmp/seeded_$pid-$k.log
export CCACHE_BASEDIR=$wt CCACHE_NOHASHDIR=1 CCACHE_DIR=/tmp/ccache
exec > $log 2>&1
cd $wt && git checkout -- . && ninja -C build -j6 >/dev/null 2>&1
echo "== demo on unchanged tree"; bash $m/demo$k.sh $wt/build; rc0=$?; echo "rc=$rc0"
git apply $m/patch$k.diff || { echo "APPLY FAILED"; exit 2; }
echo "== build with patch"; ninja -C build -j6 > build_mut.log 2>&1; rcb=$?; echo "build rc=$rcb"; tail -3 build_mut.log
echo "== demo with patch"; bash $m/demo$k.sh $wt/build; rc1=$?; echo "rc=$rc1"
echo "== existing tests with patch: ctest -R '$rx'"
ctest --test-dir build -j6 --timeout 600 -R "$rx" ${CTEST_EXCLUDE:+-E "$CTEST_EXCLUDE"} > ctest_mut.log 2>&1; rct=$?; tail -5 ctest_mut.log
git checkout -- . ; ninja -C build -j6 >/dev/null 2>&1
mkdir -p $out; cp $m/patch$k.diff $out/patch.diff; cp -r $m/demo$k* $m/gen$k.py $m/README$k.md $out/ 2>/dev/null; cp $m/demo_common.sh $out/ 2>/dev/null
tests_summary=$(grep "tests passed\|tests failed" $wt/ctest_mut.log | tail -1)
python3 - <<PY
import json
json.dump({"property": "$pid", "seeded_by": "independent sub-agent given only the property text", "patch": "patch.diff",
  "demo": "demo$k.sh <build dir>", "demo_rc_unchanged_tree": $rc0, "build_rc_with_patch": $rcb, "demo_rc_with_patch": $rc1,
  "existing_tests_run_with_patch": "ctest -j6 --timeout 600 -R '$rx'", "existing_tests_result": "$tests_summary", "ctest_rc": $rct,
  "needs_to_manifest": "see README$k.md", "confirmed": bool($rc0 == 0 and $rcb == 0 and $rc1 != 0 and $rct == 0)}, open("$out/meta.json","w"), indent=1)
PY
echo "DONE $pid-$k rc0=$rc0 build=$rcb rc1=$rc1 ctest=$rct"
