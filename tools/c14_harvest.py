"""harvest distinct crash signatures of C14 without stopping at the first (triage aid, not a registered check)"""
import sys, os, json, multiprocessing as mp
sys.path.insert(0, os.path.dirname(os.path.dirname(os.path.abspath(__file__))))
from checks import c14
from vlib.hyp import SeededChooser
from vlib.common import Violation, Discard, Inconclusive

def work(args):
    base, n = args
    found = {}
    stats = {"n": 0, "incon": 0}
    for i in range(n):
        case = c14.gen(SeededChooser(base + i))
        stats["n"] += 1
        try:
            c14.judge(case, None)
        except Violation as v:
            sig = v.detail.get("sig") or v.msg[:80]
            if sig not in found:
                found[sig] = {"case": case, "msg": v.msg[-700:], "count": 0}
            found[sig]["count"] += 1
        except Inconclusive:
            stats["incon"] += 1
        except Discard:
            pass
    return found, stats

if __name__ == "__main__":
    N = int(sys.argv[1]); seed = int(sys.argv[2]) if len(sys.argv) > 2 else 1
    W = 8
    with mp.get_context("fork").Pool(W) as pool:
        res = pool.map(work, [(seed * 10**6 + w * 10**5, N // W) for w in range(W)])
    allf = {}
    for found, stats in res:
        for sig, d in found.items():
            if sig not in allf:
                allf[sig] = d
            else:
                allf[sig]["count"] += d["count"]
    json.dump(allf, open("/tmp/c14_harvest_%d.json" % seed, "w"), indent=1)
    for sig, d in sorted(allf.items(), key=lambda kv: -kv[1]["count"]):
        print(d["count"], sig, "|", d["case"]["kind"], d["case"]["variant"])
