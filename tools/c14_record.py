"""triage aid for C14: harvest crash signatures over many generated inputs WITHOUT stopping at the first, confirm each by a replay,
and append the new ones to known_findings.json (+ corpus/C14/<key>.json). Run by hand during triage -- never by a registered check."""
import sys, os, json, multiprocessing as mp
sys.path.insert(0, os.path.dirname(os.path.dirname(os.path.abspath(__file__))))
from checks import c14
from vlib.hyp import SeededChooser
from vlib.common import Violation, Discard, Inconclusive

def work(args):
    base, n = args
    found = {}
    for i in range(n):
        case = c14.gen(SeededChooser(base + i))
        try:
            c14.judge(case, None)
        except Violation as v:
            sig = v.detail.get("sig") or v.msg[:80]
            found.setdefault(sig, case)
        except (Inconclusive, Discard):
            pass
    return found

if __name__ == "__main__":
    N = int(sys.argv[1]); seed = int(sys.argv[2])
    W = 8
    with mp.get_context("fork").Pool(W) as pool:
        res = pool.map(work, [(seed * 10**6 + w * 10**5, N // W) for w in range(W)])
    allf = {}
    for found in res:
        for sig, case in found.items():
            allf.setdefault(sig, case)
    path = os.path.join(os.path.dirname(os.path.dirname(os.path.abspath(__file__))), "known_findings.json")
    kf = json.load(open(path))
    n = max([int(f["key"][1:]) for f in kf["findings"] if f["property"] == "C14"] + [0])
    for sig, case in sorted(allf.items()):
        try:
            c14.judge(case, None)
            print("not reproduced:", sig); continue
        except Violation as ex:
            if ex.detail.get("sig") != sig:
                print("unstable signature:", sig, ex.detail.get("sig")); continue
        except (Discard, Inconclusive):
            continue
        n += 1
        key = "A%d" % n
        rel = "corpus/C14/%s.json" % key
        json.dump(case, open(os.path.join(os.path.dirname(path), rel), "w"), indent=1)
        kind = "hangs (> 20 s in the front end)" if sig.startswith("hang") else "aborts"
        kf["findings"].append({"property": "C14", "key": key, "sig": sig, "match": "crash signature equals: " + sig,
            "what": "%s: souffle %s on generated program text (%s of %s, args %s): %s; input: %s" % (key, kind, case["kind"], case["origin"],
                " ".join(case["variant"]) or "none", sig.replace("|", " -- ", 1)[:150], rel), "input": rel})
        print("NEW", key, sig)
    json.dump(kf, open(path, "w"), indent=1)
