#!/bin/sh
# mkwt.sh <dir> : scratch git worktree of /repo HEAD with a ccache-backed build in <dir>/build (tests enabled).
# Remove with: git -C /repo worktree remove --force <dir>
set -e
d="$1"
git -C /repo worktree add --detach "$d" HEAD >/dev/null 2>&1
export CCACHE_BASEDIR="$d" CCACHE_NOHASHDIR=1 CCACHE_DIR=/tmp/ccache CCACHE_MAXSIZE=8G
cmake -G Ninja -S "$d" -B "$d/build" -DCMAKE_BUILD_TYPE=Release -DCMAKE_CXX_FLAGS="-Wno-error" -DCMAKE_CXX_FLAGS_RELEASE=-O1 \
  -DSOUFFLE_GIT=OFF -DCMAKE_CXX_COMPILER_LAUNCHER=ccache > "$d/cmake.log" 2>&1
ninja -C "$d/build" -j${MKWT_JOBS:-8} > "$d/ninja.log" 2>&1
echo "worktree $d built"
