#!/usr/bin/env python3
"""Regenerates MANIFEST.json from the table below (kept in one place so the file is always valid)."""
import json, os, sys
ROOT = os.path.dirname(os.path.dirname(os.path.abspath(__file__)))
props = [json.loads(l) for l in open(os.path.join(ROOT, "properties.jsonl"))]
ids = [p["id"] for p in props]

# id -> (category, technique, level text, level note, design ref)
CHECKS = {
 "C04": ("exploration", "property-based testing (Hypothesis): metamorphic differential, default AST pipeline vs disabled optional passes / inline marks",
         "No output difference between the default pipeline and runs with optional AST passes disabled (singly and in random subsets) or with inline/no_inline marks the semantic checker accepts, over thousands of generated programs on which the pass demonstrably fires; a search, not a proof.",
         "Interpreter back end; inline legality as read from SemanticChecker (marks souffle rejects with a 'Cannot inline' diagnostic are discarded and counted); two known findings (F18, F20) are excluded by construction and re-probed.", "4/C04"),
 "C05": ("exploration", "property-based testing (Hypothesis): metamorphic differential, magic-set transformed vs untransformed program",
         "No output difference between the untransformed program and --magic-transform=* / random relation subsets / exclude lists / magic,no_magic qualifiers, over thousands of generated programs (negation, aggregates, records, recursion, constant queries) in which a magic-guarded clause with a bound adornment position exists; a search, not a proof.",
         "Interpreter back end; termination of the transformed program is assumed for the finite generated programs (timeouts are inconclusive).", "4/C05"),
 "C06": ("exploration", "property-based testing (Hypothesis): metamorphic differential, full RAM pipeline vs each RAM transformer skipped through a guarded hook",
         "No output difference between the full RAM pipeline and runs with each of the 12 RAM transformers skipped (singly and in random subsets, -j1 and -j4) over thousands of generated programs on which the skipped pass demonstrably fires; a search, not a proof.",
         "Relies on the SOUFFLE_VERIF_SKIP_RAM hook only preventing the named transformer from running; interpreter back end.", "4/C06"),
 "C01": ("exploration", "property-based testing (Hypothesis): generated programs vs naive reference evaluator",
         "No counterexample among thousands of generated typed, stratified programs whose every output relation is compared (both directions, duplicates) with an independent naive stratified evaluator; a search, not a proof.",
         "Trusts dlref (the reference evaluator written from the documentation) and the by-construction well-formedness of dlgen programs; cases outside the defined value domain are discarded and counted.", "4/C01"),
}

CHECKS.update({
 "C30": ("exploration", "property-based testing (rapidcheck) over generated transactions x generated thread schedules on the real lock classes under a cooperative scheduler, plus bounded-exhaustive schedule enumeration (stateless DFS, preemption-bounded) of small configurations",
         "History invariants (single writer, validation soundness, abort transparency, bounded progress, no lost update) hold on every explored interleaving: hundreds of thousands of random schedules and every schedule of 2x1 (unbounded), 2x2 and 3x1 (preemption-bounded) client configurations.",
         "Interleavings are sequentially consistent at hook granularity (no weak-memory effects); liveness only in bounded form (all-spinning state = violation, budget overrun = inconclusive).", "4/C30"),
 "C29": ("exploration", "property-based testing (rapidcheck) over generated operation lists x generated thread schedules on the real DisjointSet under a cooperative scheduler with a step-wise forest invariant, plus bounded-exhaustive schedule enumeration for all pairs of single operations",
         "Final partition, per-call linearizability windows of sameSet/findNode, step-wise acyclicity of parent links and termination hold on every explored interleaving (random + every schedule of all 2-thread single-operation pairs over 3-4 nodes up to a preemption bound).",
         "Sequentially consistent interleavings at hook granularity; the linearizability check uses the monotonicity of the partition (windows), not a full linearization search.", "4/C29"),
 "C07": ("exploration", "property-based testing (Hypothesis): metamorphic differential, default join order vs generated .plan permutations / every SIPS metric / profile-guided auto-schedule",
         "No output difference between the default join order and generated valid execution plans on recursive clauses (all versions), the 9 SIPS metrics, and auto-scheduling from a profile of the same program, over generated programs whose initial RAM demonstrably changes; a search, not a proof.",
         "Interpreter back end; plans souffle rejects are discarded; one recorded finding (F21: auto-scheduler assertion) is excluded by signature and re-probed.", "4/C07"),
 "C20": ("exploration", "property-based testing (Hypothesis): differential (with/without -p) plus reference count oracle (souffleprof rel table vs output file sizes)",
         "Profiling changes no output relation and every relation souffleprof lists reports exactly the number of tuples in its output file, over generated programs with recursion and multi-rule relations at -j1/-j4; a search, not a proof.",
         "Interpreter back end; relations removed by the optimiser are not listed and not compared; sizes < 1000 (souffleprof abbreviates larger counts).", "4/C20"),
 "C23": ("exploration", "property-based testing (Hypothesis): validity predicate (subset / equality below the limit / at least k tuples) against the unlimited run of the same program",
         "For generated recursive programs and limits k around the unlimited size s (k<<s, s-1, s, s+1, >s) the limited relation is a duplicate-free subset of the unlimited one, equal to it when s<k and of size >= k otherwise; a search, not a proof.",
         "Interpreter back end; the unlimited result is souffle's own (its agreement with the reference evaluator is C01's subject).", "4/C23"),
 "C08": ("exploration", "property-based testing (Hypothesis): metamorphic differential across representation qualifiers, plus reference-model oracle (naive evaluator with eqrel := equivalence closure) for eqrel relations read in every binding pattern",
         "No output difference when every relation's representation is redrawn from {default, btree, brie, btree_delete}, and every reading rule over a generated eqrel relation (all binding patterns, negation, count, self-join, probes at domain extremes) returns exactly the closure computed by the reference evaluator; a search, not a proof.",
         "Interpreter back end (where brie falls back to btree; compiled representations are exercised by C02's bundles and the structures by C25-C28); known finding F4 (eqrel element -2^31) excluded and re-probed.", "4/C08"),
 "C03": ("exploration", "property-based testing (Hypothesis): metamorphic differential -j1 vs -jN under a seeded schedule-perturbation hook",
         "Outputs at -jN (N in 2..16, seeded yields/sleeps injected at every lock, CAS and parallel-loop hook point) equal the -j1 outputs on generated programs whose RAM contains PARALLEL operations over relations of hundreds to thousands of tuples; a search over OS schedules, not schedule control.",
         "Whole-program runs cannot be serialised (OpenMP barriers): interleavings are sampled, a rare race may be missed; the data structures underneath are schedule-controlled in C25-C31. Compiled executables only in the thorough tier.", "4/C03"),
 "C10": ("exploration", "property-based testing (Hypothesis): validity predicate (functional / sound / maximal) over the final database, with the rule firing of the reference evaluator as derivability oracle",
         "For generated choice-domain programs (single, multiple, composite keys; recursive definitions; readers) every run at -j1..8 under schedule perturbation yields choice relations that are functional on every declared key, contain only tuples derivable from the final database, miss only tuples that clash with a present one, and all dependent relations equal the reference evaluation given the chosen tuples.",
         "Interpreter back end in the quick tier; schedules are perturbed, not controlled; T(D) comes from dlref's rule firing.", "4/C10"),
 "C11": ("exploration", "property-based testing (Hypothesis): invariants of the result (no dominated tuple, subset of the unsubsumed reference result), metamorphic -j1 vs -jN, and for monotone cost programs equality with the minimal elements of the reference result",
         "For generated subsumptive relations whose dominance is a strict partial order by construction: no final tuple is dominated, R is a subset of the reference evaluation without subsumption, -j1 and -jN agree, and shortest-distance-style programs give exactly the minimal tuples.",
         "Interpreter back end in the quick tier; U computed by dlref; schedules perturbed, not controlled.", "4/C11"),
 "C13": ("exploration", "property-based testing (Hypothesis): paired well-formed / ill-formed programs with a by-construction verdict (one injected defect of a known class)",
         "Every generated well-formed program is accepted and runs; every program with one injected stratification / groundedness / type defect is rejected with exit 1, an Error diagnostic, the abort line and no output file, over thousands of pairs covering 10 defect kinds.",
         "Defect kinds are limited to those that are ill-formed by the language rules (no leniency cases); diagnostic texts are classified, not asserted.", "4/C13"),
 "C15": ("exploration", "property-based testing (Hypothesis): round trip print -> parse -> print (fixpoint, byte equality) plus differential execution of the printed program",
         "For generated programs decorated with rarely printed constructs the printed AST parses again, printing is a byte-exact fixpoint and the printed program computes the same outputs; five already-broken printers (F5, F9-F12) are excluded by construction and re-probed.",
         "Interpreter back end; constructs of the five recorded findings are not in the campaign.", "4/C15"),
 "C16": ("exploration", "property-based testing (Hypothesis): reference-model oracle (own textual expansion of generated component forests) compared output by output",
         "Generated component programs (type parameters, single/multiple inheritance, overrides, nested and repeated instantiation, outer readers) produce exactly the outputs of the flat program obtained by this check's own expansion, and are accepted iff the expansion is.",
         "The expansion model is this check's reading of the component semantics; interpreter back end.", "4/C16"),
 "C18": ("exploration", "property-based testing (Hypothesis): boundary-directed literal grammar judged by an independent arbitrary-precision reader with fixed accept / reject / lenient verdicts",
         "Canonical in-range literals load with exactly the written value; malformed, garbage-suffixed, empty and out-of-range fields (and too few columns) fail with exit 1 and an error naming file and line; lenient spellings are either rejected or stored correctly; the same range rule holds for constants in program text; no crash or hang.",
         "End-to-end through the interpreter's .input path; the in-process reader harness of the design (libFuzzer on raw bytes) is not built.", "4/C18"),
 "C22": ("exploration", "property-based testing (Hypothesis): uniqueness invariant over all autoinc columns plus exact evaluation counts from companion rules, under thread counts and schedule perturbation",
         "All autoinc() values of a run are pairwise distinct and every autoinc relation holds exactly one tuple per rule evaluation, for generated programs with thousands of parallel evaluations at -j1..16 under perturbation.",
         "A lost update needs a real collision: detection is probabilistic (volume x threads); interpreter back end in the quick tier.", "4/C22"),
 "C24": ("exploration", "generated value matrix (seeded, boundary pools x random) with a three-way oracle: interpreter vs compiled vs independent reference table of the documented semantics",
         "Every intrinsic operator, constraint and conversion in every overload returns the reference value on thousands of argument tuples from boundary pools, identically in the interpreter and in compiled code (92 operator cells, each exercised >= 20 times).",
         "Argument tuples outside an operator's defined domain are filtered by the reference before evaluation; ord() excluded; regex subset; seeded Python RNG (no shrinking: the failing tuples are listed).", "4/C24"),
 "C02": ("exploration", "differential testing over generated program bundles (seeded generator): interpreter vs compiled C++ (-c, -C) vs reference evaluator, with attribution of a failing bundle to one sub-program",
         "Every output relation of every generated sub-program is identical between the interpreter and the compiled executable (and equal to the reference least model where that applies); generated C++ must compile; bundles of 6-10 programs per compile.",
         "One case costs a C++ compile, so cases are few (tens per quick run) and library shrinking is replaced by per-sub-program attribution; seeded PRNG chooser (replayable trace).", "4/C02"),
 "C25": ("exploration", "property-based testing (rapidcheck) of generated concurrent insertion histories under a cooperative scheduler with generated schedules, plus bounded-exhaustive schedule enumeration, against a std::multiset model",
         "Final content, exactly-once success per key, ordered iteration, find/contains/bounds/size/chunks and the tree's own check() agree with the model on every explored interleaving of 2-8 inserting threads over small and default node sizes, with and without hints.",
         "Sequentially consistent interleavings at hook granularity (lock operations, key-shift loop); reads only after quiescence; no weak-memory effects.", "4/C25"),
 "C26": ("exploration", "stateful model-based property testing (rapidcheck) of insert/erase/query histories against std::set after every operation, plus the C25 concurrent-insert cases and mixed insert/erase phases on the deletable tree",
         "Every operation's return value, the iteration order, bounds, size and the structural check agree with the model after every step of generated histories that reach inner-node erases, merges, borrows and root shrinks; concurrent inserts satisfy the C25 oracle.",
         "btree_delete_multiset::erase cannot be instantiated in the tree (compile-level observation), so erase histories cover btree_delete_set; schedules as C25.", "4/C26"),
 "C27": ("exploration", "property-based testing (rapidcheck) of concurrent Trie<1..4> insertion histories under a cooperative scheduler (generated schedules + bounded-exhaustive enumeration) against a std::set model",
         "Content, exactly-once success, iteration, contains/find/size, getBoundaries for every prefix length, partition and insertAll agree with the model on every explored interleaving, for dense, boundary, sparse and mixed-sign 32-bit values.",
         "lower_bound/upper_bound are judged only for values in [0,64) (two defects outside the property text are printed as NOTE lines); -fno-sanitize=shift because of a benign shift UB in Brie.h.", "4/C27"),
 "C28": ("exploration", "stateful model-based property testing (rapidcheck) of EquivalenceRelation histories (sequential and concurrent inserts, insertAll, extendAndInsert, clear, cache-building reads) against a naive partition model, plus PiggyList alone",
         "contains/size/full, per-element and per-pair iteration, partitions and the extendAndInsert post-condition agree with the closure model after every step, including reads on a stale cache and concurrent insertion phases under generated and enumerated schedules.",
         "The element value -2^31 is excluded from lookup operands (known finding F4, re-probed); -fno-sanitize=enum because of an uninitialised enum copy in end iterators.", "4/C28"),
 "C31": ("exploration", "property-based testing (rapidcheck) of concurrent interning histories on ConcurrentFlyweight / SymbolTableImpl / SpecializedRecordTable under a cooperative scheduler (OpenMP-lane workers), plus bounded-exhaustive schedule enumeration, against a bijection model",
         "Equal values get equal references, different values different ones, exactly one insertion per value, every reference decodes to its value, nil is never returned for a record, post-quiescence iteration lists every value once across table growth, and no lock is left taken, on every explored interleaving.",
         "Iteration is checked after quiescence only (iteration concurrent with interning is unsafe in the tree: noted observation); capacity-0 symbol tables are not generated (they hang: noted observation).", "4/C31"),
})

def entry(pid):
    cat, tech, text, note, ref = CHECKS[pid]
    return {
        "property_id": pid,
        "quick_cmd": "./check %s --tier quick" % pid,
        "thorough_cmd": "./check %s --tier thorough" % pid,
        "evidence_file": "/verif/evidence/%s.json" % pid,
        "replay_cmd_template": "./check %s --replay {path}" % pid,
        "engine": "P" if int(pid[1:]) <= 24 else "H",
        "level_claimed": {"category": cat, "text": text, "design_ref": "DESIGN.md section " + ref},
        "level_note": note,
        "technique": tech,
    }

NA_REASON = {}
m = {
 "version": 1,
 "setup_cmd": "./setup.sh",
 "hooks": {
   "guard": "SOUFFLE_VERIF",
   "enable": "cmake -S /repo -B /verif/build/souffle -DCMAKE_CXX_FLAGS='-Wno-error -DSOUFFLE_VERIF' (vlib/common.py ensure_build); harnesses compile /repo/src/include with -DSOUFFLE_VERIF",
   "baseline_off_cmd": "cmake -G Ninja -S /repo -B /repo/_build && cmake --build /repo/_build -j16 && ctest --test-dir /repo/_build -j8 --timeout 900",
   "source_commits": [l.strip() for l in open(os.path.join(ROOT, "hooks_commits.txt")) if l.strip()] if os.path.exists(os.path.join(ROOT, "hooks_commits.txt")) else [],
   "add_only": True,
 },
 "engines": [
   {"name": "P", "path": "vlib/", "serves_properties": [i for i in ids if i in CHECKS and int(i[1:]) <= 24],
    "kind_free_text": "Python + Hypothesis generators (dlgen), reference evaluator (dlref), drives the real souffle binaries built from /repo with the hook guard on"},
   {"name": "H", "path": "harness/", "serves_properties": [i for i in ids if i in CHECKS and int(i[1:]) > 24],
    "kind_free_text": "C++ in-process harnesses over src/include/souffle (rapidcheck + cooperative scheduler + libFuzzer), ASan/UBSan, asserts on"},
 ],
 "checks": [entry(i) for i in ids if i in CHECKS],
 "not_applicable": [{"property_id": i, "reason": NA_REASON.get(i, "no check registered in this revision yet (planned in DESIGN.md section 4); nothing is claimed for it")} for i in ids if i not in CHECKS],
 "notes": "All checks: ./check <id> [--tier quick|thorough] [--replay file]; VERIF_SEED selects the seed. See DESIGN.md.",
}
json.dump(m, open(os.path.join(ROOT, "MANIFEST.json"), "w"), indent=1)
print("MANIFEST.json: %d checks, %d not_applicable" % (len(m["checks"]), len(m["not_applicable"])))
