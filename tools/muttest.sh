#!/bin/sh
# muttest.sh <worktree> <patch.diff> <check id>... : apply the patch in the scratch worktree, run the checks' quick tier against
# it (own build dir, own evidence/replay dirs under /tmp), revert the patch. Prints one line per check.
wt="$1"; patch="$2"; shift 2
tag=$(basename "$wt")-$(basename "$patch" .diff)
out=/tmp/muttest/$tag; mkdir -p "$out"
git -C "$wt" checkout -- . ; git -C "$wt" apply "$patch" || { echo "APPLY FAILED $patch"; exit 2; }
for c in "$@"; do
  VERIF_REPO="$wt" VERIF_EVIDENCE_DIR="$out/evidence" VERIF_REPLAY_DIR="$out/replays" ${VERIF_SEED:+VERIF_SEED=$VERIF_SEED} \
    /verif/check "$c" --tier ${MUT_TIER:-quick} > "$out/$c.log" 2>&1
  rc=$?
  echo "MUT $tag $c rc=$rc $(grep -c '^VIOLATION' "$out/$c.log") violation line(s); $(tail -1 "$out/$c.log")"
done
git -C "$wt" checkout -- .
