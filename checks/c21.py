"""C21 -- the C++ embedding API is consistent with file-based runs."""
import os, time, json, subprocess
from vlib import dlgen, runner, common
from vlib.common import Violation, Discard, Inconclusive, Stats, Scratch, souffle, write_files, read_outputs, run
from vlib.hyp import SeededChooser, Chooser
from vlib.refops import f32

PID = "C21"
RULE = ("dlgen programs over number / unsigned / float / symbol attributes (negation, aggregates, functors, recursion) whose EDB relations are "
        "all `.input` and whose relations carry generated representation qualifiers (default / btree / brie); each is generated to C++ with `souffle -g`, compiled with -D__EMBEDDED_SOUFFLE__ and linked with a generic driver "
        "that executes a generated script of API calls: insert(tuple) into every input relation, run(), iterate / size() / "
        "contains(member and non-member probes) on every output and input relation, purgeInputRelations / purgeOutputRelations / "
        "purgeInternalRelations / Relation::purge, size after purge, re-insert (the same or a second fact set) and run() again, "
        "loadAll(dir) + run() + printAll(dir). Oracle: (1) iteration after run() == the output files of the interpreter's file-based run "
        "on the same facts; (2) contains(t) <=> t is iterated; (3) size() == number of iterated tuples, no tuple iterated twice; "
        "(4) after purging everything, re-inserting and re-running, the results are those of the first run (resp. of the file-based run "
        "on the second fact set); (5) printAll files == iteration. Non-trivial = a script with a purge followed by a second run whose "
        "outputs are non-empty, and contains probes answering both true and false; distinct by hash of (program, script). "
        "One case costs a C++ compile, so cases are few; generation is a seeded PRNG chooser (no library shrinking).")
LINK = ["-ldl", "-lsqlite3", "-lz", "-lncurses"]


def fmt(v, ty):
    if ty == dlgen.FLOAT:
        return repr(float(v))
    return str(v)


def gen(ch):
    feat = dlgen.Feat(records=False, nullary=False, file_facts=False, idb_facts=False, empty_symbol=False, max_groups=4)
    P = dlgen.generate(ch, feat)
    sets = []
    for k in range(2):
        fs = {}
        for n in P.order:
            rel = P.rels[n]
            if rel.kind != "edb":
                continue
            if k == 0:
                fs[n] = list(rel.facts)
            else:
                seen = set()
                for _ in range(ch.int(0, 8)):
                    seen.add(tuple(dlgen.gen_value(ch, t, feat) for t in rel.types))
                fs[n] = sorted(seen, key=repr)
        sets.append(fs)
    for n in P.order:
        rel = P.rels[n]
        if rel.kind == "edb":
            rel.from_file = True
        # data-structure qualifiers: the API wraps every representation behind the same Relation interface
        q = ch.weighted([(5, ""), (2, "btree"), (3, "brie")])
        if q and len(rel.types) > 0 and not rel.quals:
            rel.quals.append(q)
    text, _ = dlgen.to_souffle(P)
    types = {n: [dlgen.tname(t) for t in P.rels[n].types] for n in P.order}
    outs = [n for n in P.order if P.rels[n].output]
    ins = [n for n in P.order if P.rels[n].kind == "edb"]
    probes = {}
    for n in outs + ins:
        probes[n] = [[dlgen.gen_value(ch, t, feat) for t in P.rels[n].types] for _ in range(3)]
    second = ch.choice(["same", "other", "loadall"])
    purge_style = ch.choice(["all3", "per_relation"])
    return {"program": text, "types": types, "outs": outs, "ins": ins, "facts": [{n: [list(t) for t in v] for n, v in fs.items()} for fs in sets],
            "probes": probes, "second": second, "purge": purge_style}


def facts_files(case, k):
    return {n + ".facts": "".join("\t".join(fmt(v, t) for v, t in zip(tp, case["types"][n])) + "\n" for tp in case["facts"][k][n]) for n in case["ins"]}


def typed_line(cols, tys):
    out = []
    for c, t in zip(cols, tys):
        if t in ("number", "unsigned"):
            out.append(int(c))
        elif t == "float":
            out.append(f32(float(c)))
        else:
            out.append(c)
    return tuple(out)


def judge(case, st=None):
    types = case["types"]
    # reference: interpreter, file-based
    refs = []
    for k in (0, 1):
        res = runner.run_program(case["program"], facts_files(case, k))
        runner.classify_failure(res, "file-based run", case)
        refs.append({n: {typed_line(ln.split("\t"), types[n]) for ln in (res.outputs.get(n) or [])} for n in case["outs"]})
    with Scratch("c21") as d:
        write_files(d, {"p.dl": case["program"]})
        rg = souffle(["-g", "p.cpp", "p.dl"], cwd=d, timeout=120)
        if rg.timeout:
            raise Inconclusive("timeout:generate")
        if rg.rc != 0:
            raise Violation("souffle -g failed on an accepted program: rc=%s\n%s" % (rg.rc, rg.err[-1000:]), {"case": case})
        cmd = ["g++", "-std=c++17", "-O1", "-fopenmp", "-D__EMBEDDED_SOUFFLE__", "-DSOUFFLE_VERIF", "-I" + os.path.join(common.REPO, "src", "include"),
               "p.cpp", os.path.join(common.ROOT, "harness", "api_driver.cpp"), "-o", "prog"] + LINK
        rc = run(cmd, cwd=d, timeout=1200)
        if rc.timeout:
            raise Inconclusive("timeout:compile")
        if rc.rc != 0:
            raise Violation("the generated C++ does not compile as a library: %s" % rc.err[-1500:], {"case": case})
        # the script
        lines = []
        expect = []     # per observation: (kind, payload)

        def insert_all(k):
            for n in case["ins"]:
                for tp in case["facts"][k][n]:
                    lines.append("I\t%s\t%s" % (n, "\t".join(fmt(v, t) for v, t in zip(tp, types[n]))))

        def observe(k, tag):
            for n in case["outs"] + case["ins"]:
                lines.append("T\t" + n)
                expect.append(("T", n, k, tag))
                lines.append("Z\t" + n)
                expect.append(("Z", n, k, tag))
                for pr in case["probes"][n]:
                    lines.append("C\t%s\t%s" % (n, "\t".join(fmt(v, t) for v, t in zip(pr, types[n]))))
                    expect.append(("C", n, k, tuple(pr)))
                # a member probe, if any
                mem = sorted(refs[k][n], key=repr)[:1] if n in case["outs"] else [tuple(x) for x in case["facts"][k][n][:1]]
                for pr in mem:
                    lines.append("C\t%s\t%s" % (n, "\t".join(fmt(v, t) for v, t in zip(pr, types[n]))))
                    expect.append(("C", n, k, tuple(pr)))
        insert_all(0)
        lines.append("R")
        expect.append(("R",))
        observe(0, "first run")
        if case["purge"] == "all3":
            lines += ["PI", "PO", "PN"]
        else:
            # (relations souffle creates itself, e.g. the nullary `+disconnectedN` of a partitioned body, are reachable only through
            # purgeInternalRelations)
            lines += ["P\t" + n for n in types] + ["PN"]
        for n in case["outs"] + case["ins"]:
            lines.append("Z\t" + n)
            expect.append(("Z0", n))
        k2 = 0 if case["second"] == "same" else 1
        if case["second"] == "loadall":
            os.makedirs(os.path.join(d, "f2"), exist_ok=True)
            write_files(os.path.join(d, "f2"), facts_files(case, 1))
            lines.append("L\tf2")
        else:
            insert_all(k2)
        lines.append("R")
        expect.append(("R",))
        observe(k2, "second run")
        os.makedirs(os.path.join(d, "w"), exist_ok=True)
        lines.append("W\tw")
        write_files(d, {"script.txt": "\n".join(lines) + "\n"})
        rr = run([os.path.join(d, "prog"), "p", "script.txt"], cwd=d, timeout=120)
        printed = read_outputs(os.path.join(d, "w"))
    if rr.timeout:
        raise Inconclusive("timeout:driver")
    if rr.rc != 0:
        raise Violation("the embedded program died: rc=%s\n%s" % (rr.rc, (rr.err or rr.out)[-1200:]), {"case": case})
    # parse observations
    obs = []
    cur = None
    for ln in rr.out.split("\n"):
        if ln.startswith("T "):
            cur = cur if cur is not None else []
            cur.append(ln[2:].split("\t"))
        elif ln == "E":
            obs.append(("T", cur or []))
            cur = None
        elif ln.startswith("Z "):
            obs.append(("Z", int(ln[2:])))
        elif ln.startswith("C "):
            obs.append(("C", int(ln[2:])))
        elif ln == "R":
            obs.append(("R",))
        elif ln.startswith("N "):
            obs.append(("N", ln[2:]))
        elif ln.startswith("ERR"):
            raise Violation("driver: " + ln, {"case": case})
    if len(obs) != len(expect):
        raise Violation("driver produced %d observations for %d requests; tail: %r" % (len(obs), len(expect), rr.out[-300:]), {"case": case})
    msgs = []
    iterated = {}
    true_probe = false_probe = False
    for ex, ob in zip(expect, obs):
        if ex[0] == "R":
            continue
        if ob[0] == "N":
            if len(ex) > 1 and ex[1] in case["outs"]:
                msgs.append("output relation %s does not exist in the embedded program" % ex[1])
            continue
        if ex[0] == "Z0":
            if ob[1] != 0:
                msgs.append("size(%s) = %d after purging" % (ex[1], ob[1]))
            continue
        kind, n, k = ex[0], ex[1], ex[2]
        want = refs[k][n] if n in case["outs"] else {typed_line([fmt(v, t) for v, t in zip(tp, types[n])], types[n]) for tp in case["facts"][k][n]}
        if kind == "T":
            rows = [typed_line(r[1:], types[n]) for r in ob[1]]
            if len(set(rows)) != len(rows):
                msgs.append("%s (%s): a tuple is iterated twice" % (n, ex[3]))
            if set(rows) != want:
                msgs.append("%s (%s): API iteration differs from the file-based run: missing %r extra %r" % (
                    n, ex[3], sorted(want - set(rows), key=repr)[:4], sorted(set(rows) - want, key=repr)[:4]))
            iterated[(n, k, ex[3])] = set(rows)
            last = (set(rows), len(rows))
        elif kind == "Z":
            if ob[1] != last[1]:
                msgs.append("%s (%s): size() = %d but %d tuples are iterated" % (n, ex[3], ob[1], last[1]))
        elif kind == "C":
            t = typed_line([fmt(v, ty) for v, ty in zip(ex[3], types[n])], types[n])
            if bool(ob[1]) != (t in last[0]):
                msgs.append("%s: contains(%r) = %d but the tuple is %siterated" % (n, t, ob[1], "" if t in last[0] else "not "))
            if ob[1]:
                true_probe = True
            else:
                false_probe = True
    k2 = 0 if case["second"] == "same" else 1
    for n in case["outs"]:
        got = {typed_line(ln.split("\t"), types[n]) for ln in (printed.get(n) or [])}
        if got != refs[k2][n]:
            msgs.append("%s: printAll wrote %r, expected %r" % (n, sorted(got, key=repr)[:4], sorted(refs[k2][n], key=repr)[:4]))
    if msgs:
        raise Violation("the embedding API disagrees with the file-based run / with itself:\n" + "\n".join(msgs[:10]), {"case": case})
    if st is not None:
        nonempty = any(refs[k2][n] for n in case["outs"])
        if nonempty and true_probe and false_probe:
            st.nontrivial.add(common.h(case["program"] + repr(lines)))
            st.classes["second_run:" + case["second"]] += 1
            st.classes["purge:" + case["purge"]] += 1
            st.sample({"program": case["program"], "script_head": lines[:25]})
        else:
            st.classes["trivial"] += 1
        st.extra["api_observations"] = st.extra.get("api_observations", 0) + len(obs)


def worker(shard, seed, n, params):
    st = Stats()
    for i in range(n):
        ch = SeededChooser(seed * 1000 + i)
        case = gen(ch)
        st.evals += 1
        try:
            judge(case, st)
        except Discard as d:
            st.discards[d.why] += 1
        except Inconclusive as d:
            st.inconclusive[d.why] += 1
        except Violation as v:
            st.violations.append({"case": v.detail.get("case", case), "msg": v.msg})
            break
    return st


def replay_case(case):
    judge(case, None)


def replay_file(path):
    case = json.load(open(path))
    try:
        replay_case(case)
    except Violation as v:
        print("VIOLATION property=%s replay=%s" % (PID, path))
        print(v.msg)
        return 1
    except (Discard, Inconclusive) as e:
        print("replay not conclusive: %s" % e)
        return 0
    print("replay passes")
    return 0


def main(tier, seed):
    t0 = time.time()
    total = 16 if tier == "quick" else 400
    if os.environ.get("VERIF_N"):
        total = int(os.environ["VERIF_N"])
    st = common.run_sharded(worker, seed, total, {"tier": tier}, shards=8)
    return common.finish(PID, tier, seed, "exploration", st, RULE, t0, replay_fn=replay_case,
                         assumptions=["the reference is the interpreter's file-based run of the same program", "no records / ADTs through the API"],
                         nontrivial_floor=8)
