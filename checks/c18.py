"""C18 -- fact input accepts exactly the valid, in-range values (and numeric constants in program text obey the same range rule)."""
import os, re, math
from vlib import common, runner
from vlib.common import Violation, Discard, Inconclusive, Scratch, souffle, write_files, read_outputs
from vlib.refops import f32, I32_MIN, I32_MAX, U32_MAX
from vlib.pcheck import PCheck

PID = "C18"
RULE = ("Generated fact files (1-3 columns of number / unsigned / float / symbol, 1-6 lines; in 30% of the plain fact-file cases the "
        "excursion column is a record [T, symbol] or an ADT $W(T) / $P(T, symbol) and the excursion is the nested component, judged by "
        "the range rule only) in which exactly one field is an "
        "'excursion' drawn from a literal grammar around every boundary: optional sign, leading zeros, digits around 2^31-1, 2^31, "
        "-2^31, -2^31-1, 2^32-1, 2^32, 2^32+k, 2^63, 2^64+-1, 40-digit numbers, floats (1e38, 3.5e38, 1e39, 1e-46, inf, nan, '1.', '.5', "
        "'1e', hex floats), base prefixes, trailing/leading garbage, embedded blanks, empty field, missing / extra columns, CRLF; "
        "the same numerals are also placed as constants in program text. An independent reader (`refnum`, arbitrary precision) "
        "classifies every field BEFORE souffle is run: must-accept (canonical literal of the column type, value representable) => "
        "exit 0 and the loaded value equals the written one exactly; must-reject (not a literal of the type, trailing garbage, "
        "empty, out of range, too few columns) => exit status 1 and an error naming the fact file and the line; lenient zone "
        "(leading blanks, '+', leading zeros, '1.', '.5', inf/nan, float underflow, base prefixes, extra columns) => either is fine, "
        "but if accepted the stored value must be the one written. Universal: no signal, no hang, no silently different value. "
        "Program-text constants out of range => compile error, in range => the stored value. Non-trivial = the excursion field is "
        "within distance 2 of a range boundary or in a must-reject class; distinct by hash of (types, file).")

INT_RE = re.compile(r"-?(0|[1-9][0-9]*)$")
UNS_RE = re.compile(r"(0|[1-9][0-9]*)$")
FLT_RE = re.compile(r"-?(0|[1-9][0-9]*)(\.[0-9]+)?([eE][+-]?[0-9]+)?$")
F32_MAX = 3.4028234663852886e38
F32_MIN_NORMAL = 1.1754943508222875e-38


def classify(ty, s):
    """-> (verdict, value) with verdict in accept / reject / lenient; value = expected typed value (None if not checkable)"""
    if ty == "symbol":
        return "accept", s
    if ty == "number":
        if INT_RE.match(s):
            v = int(s)
            if s == "-0":
                return "lenient", 0
            return ("accept", v) if I32_MIN <= v <= I32_MAX else ("reject", None)
        m = re.match(r"[ \t]*\+?-?0*[0-9]+$", s)
        if m and re.match(r"[ \t]*[+-]?[0-9]+$", s):
            v = int(s.strip())
            return ("lenient", v) if I32_MIN <= v <= I32_MAX else ("reject", None)
        if re.match(r"-?0[xXbB][0-9a-fA-F]+$", s):
            return "lenient", None
        return "reject", None
    if ty == "unsigned":
        if UNS_RE.match(s):
            v = int(s)
            return ("accept", v) if v <= U32_MAX else ("reject", None)
        if re.match(r"[ \t]*\+?[0-9]+$", s):
            v = int(s.strip())
            return ("lenient", v) if v <= U32_MAX else ("reject", None)
        if re.match(r"0[xXbB][0-9a-fA-F]+$", s) or s in ("-0",):
            return "lenient", None
        return "reject", None
    if ty == "float":
        if FLT_RE.match(s):
            try:
                x = float(s)
            except ValueError:
                return "reject", None
            if abs(x) > F32_MAX * (1 + 2 ** -25):
                return "reject", None
            if abs(x) >= F32_MAX:
                return "lenient", None       # rounds to max or to infinity depending on the conversion
            if x != 0 and abs(x) < F32_MIN_NORMAL:
                return "lenient", None       # underflow / denormal
            return "accept", f32(x)
        t = s.strip().lower()
        if re.match(r"[ \t]*[+-]?(inf|infinity|nan)$", s.lower()) or re.match(r"[ \t]*[+-]?([0-9]+\.|\.[0-9]+|[0-9]+\.[0-9]*)([eE][+-]?[0-9]+)?$", s) \
                or re.match(r"[ \t]*\+[0-9]", s) or re.match(r"[ \t]+-?[0-9]", s) or re.match(r"-?0[xX][0-9a-fA-F.]+([pP][+-]?[0-9]+)?$", s) \
                or re.match(r"-?0[0-9]", s):
            # accepted by some strtof-style readers: if souffle accepts, the value must be right where we can tell
            try:
                x = float(s.strip().replace("+", "", 1)) if not t.lstrip("+-").startswith(("inf", "nan", "0x")) else None
            except ValueError:
                x = None
            if x is not None and (abs(x) >= F32_MAX or (x != 0 and abs(x) < F32_MIN_NORMAL)):
                x = None
            return "lenient", (f32(x) if x is not None else None)
        return "reject", None
    raise KeyError(ty)


BOUND_INTS = [2**31 - 1, 2**31, 2**31 + 1, -2**31, -2**31 - 1, -2**31 + 1, 2**32 - 1, 2**32, 2**32 + 1, 2**32 + 5, 2**63, 2**63 - 1, -2**63,
              2**64, 2**64 - 1, 2**64 + 1, 10**39 + 7, 0, 1, -1]


def excursion(ch, ty):
    k = ch.int(0, 19)
    b = ch.choice(BOUND_INTS)
    if ty == "symbol":
        return ch.choice(["", " ", "a b", "x", "12", "-", "a\\b", "\"q\"", "[1,2]", "é", "a,b", "nil"]), False
    if k <= 5:
        d = ch.int(-2, 2)
        return str(b + d), True
    if k == 6:
        return "+" + str(abs(b) % (2**31)), False
    if k == 7:
        return "00" + str(abs(b) % 1000), False
    if k == 8:
        return " " + str(ch.int(0, 99)), False
    if k == 9:
        return str(ch.int(0, 99)) + ch.choice([" ", "x", ".", "e", "-", "L", "u", ",1"]), False
    if k == 10:
        return ch.choice(["", "-", "+", "--1", "1-", "a", "0x", "NaN", "null", "1 2", "1e", "0x1G"]), False
    if k == 11:
        return ch.choice(["0x10", "0b101", "0X1f", "-0x1", "0x100000000", "0b" + "1" * 33]), False
    if k == 12:
        return ch.choice(["1.5", "-0.25", "1.", ".5", "1e3", "1E-3", "-1e+2", "100.125", "16777217", "0.1", "1.0000001"]), False
    if k == 13:
        return ch.choice(["3.4028234e38", "3.4028235e38", "3.4028236e38", "3.5e38", "1e39", "-1e39", "1e-46", "1e-40", "1.17549435e-38", "1e400", "-3.4028236e38"]), True
    if k == 14:
        return ch.choice(["inf", "-inf", "nan", "INF", "infinity", "0x1p3", "0x1.8p1"]), False
    if k == 15:
        return ch.choice(["-0", "0", "-0.0", "0.0", "0e0"]), False
    if k == 16:
        return str(ch.int(-50, 50)), False
    if k == 17:
        return "9" * ch.choice([9, 10, 11, 19, 20, 40]), True
    if k == 18:
        return ("-" if ch.bool(0.5) else "") + "0" * ch.int(1, 12) + str(ch.int(0, 9)), False
    return str(ch.int(0, 2**32 + 100)), False


def canonical(ch, ty):
    if ty == "number":
        return str(ch.choice([0, 1, -1, 7, 42, I32_MAX, I32_MIN, ch.int(-1000, 1000)]))
    if ty == "unsigned":
        return str(ch.choice([0, 1, 7, U32_MAX, 2**31, ch.int(0, 100000)]))
    if ty == "float":
        return ch.choice(["0", "1", "-1", "1.5", "-0.25", "100.125", "3.25e5", "1e-5", "123456.75"])
    return ch.choice(["a", "b c", "x", "hello", "0"])


def gen(ch):
    ncol = ch.int(1, 3)
    types = [ch.choice(["number", "unsigned", "float", "symbol"]) for _ in range(ncol)]
    if all(t == "symbol" for t in types):
        types[0] = ch.choice(["number", "unsigned", "float"])
    nlines = ch.int(1, 6)
    bad_line = ch.int(0, nlines - 1)
    numeric_cols = [i for i, t in enumerate(types) if t != "symbol"]
    bad_col = ch.choice(numeric_cols) if ch.bool(0.85) else ch.int(0, ncol - 1)
    rows = []
    for ln in range(nlines):
        rows.append([canonical(ch, t) for t in types])
    exc, near = excursion(ch, types[bad_col])
    rows[bad_line][bad_col] = exc
    shape = ch.weighted([(12, "ok"), (1, "missing_col"), (1, "extra_col"), (1, "crlf"), (1, "no_final_newline")])
    lines = ["\t".join(r) for r in rows]
    if shape == "missing_col" and ncol >= 2:
        lines[bad_line] = "\t".join(rows[bad_line][:-1])
    elif shape == "extra_col":
        lines[bad_line] = lines[bad_line] + "\t" + "9"
    text = ("\r\n" if shape == "crlf" else "\n").join(lines) + ("" if shape == "no_final_newline" else ("\r\n" if shape == "crlf" else "\n"))
    mode = "facts" if ch.bool(0.8) or types[bad_col] == "symbol" else "program"
    nest = None
    if mode == "facts" and shape == "ok" and types[bad_col] != "symbol" and ch.bool(0.3):
        # the excursion sits inside a record or an ADT value of the column (same literal rules for the nested component)
        nest = ch.choice(["rec", "adt1", "adt2"])
        text = "\n".join("\t".join(wrap(nest, x) if i == bad_col else x for i, x in enumerate(r)) for r in rows) + "\n"
    return {"types": types, "rows": rows, "file": text, "bad": [bad_line, bad_col], "exc": exc, "near": near, "shape": shape, "mode": mode, "nest": nest}


def wrap(nest, x):
    return {"rec": "[%s, k]", "adt1": "$W(%s)", "adt2": "$P(%s, k)"}[nest] % x


def unwrap(nest, s):
    pre, post = {"rec": ("[", ", k]"), "adt1": ("$W(", ")"), "adt2": ("$P(", ", k)")}[nest]
    if not (s.startswith(pre) and s.endswith(post)):
        raise ValueError("unexpected nested value %r" % s)
    return s[len(pre):len(s) - len(post)]


def typed(s, ty):
    if ty in ("number", "unsigned"):
        return int(s)
    if ty == "float":
        return f32(float(s))
    return s


def judge(case, st=None):
    types = case["types"]
    bl, bc = case["bad"]
    exc = case["exc"]
    verdict, val = classify(types[bc], exc)
    if "\t" in exc or "\n" in exc:
        raise Discard("separator_in_field")
    shape = case["shape"]
    decl = ".decl r(%s)\n" % ", ".join("c%d:%s" % (i, t) for i, t in enumerate(types))
    if case["mode"] == "program":
        # the numeral as a constant in program text: only for well-formed numerals of the program grammar
        if not re.match(r"-?[0-9]+(\.[0-9]+)?$", exc) or types[bc] == "symbol":
            raise Discard("not_a_program_numeral")
        args = []
        for i, t in enumerate(types):
            v = exc if i == bc else case["rows"][bl][i]
            if i != bc and t == "float" and ("e" in v or "E" in v):
                v = "%.6f" % float(v)      # program text has no exponent notation
            args.append('"%s"' % v if t == "symbol" else v)
        if any(('"' in case["rows"][bl][i] or "\\" in case["rows"][bl][i]) for i, t in enumerate(types) if t == "symbol"):
            raise Discard("quote_in_symbol")
        prog = decl + ".output r\nr(%s).\n" % ", ".join(args)
        res = runner.run_program(prog, {})
        if res.rr.timeout:
            raise Violation("souffle hangs on a numeric constant in program text", {"case": case})
        if res.rr.signal:
            raise Violation("souffle died with signal %s on a numeric constant: %s" % (res.rr.signal, res.rr.err[-600:]), {"case": case})
        pv, pval = classify(types[bc], exc)
        if types[bc] == "float" and re.match(r"-?[0-9]+$", exc):
            pv, pval = "accept", f32(float(exc)) if abs(float(exc)) < F32_MAX else ("reject", None)[1]
            if pval is None:
                pv = "lenient"
        if types[bc] in ("number", "unsigned") and "." in exc:
            pv = "reject"
        if pv == "reject":
            if res.rr.rc == 0:
                got = res.outputs.get("r")
                raise Violation("out-of-range / ill-typed constant %s accepted in program text for a %s attribute; stored: %r" % (exc, types[bc], got), {"case": case})
        elif res.rr.rc == 0 and pval is not None:
            got = res.outputs.get("r") or []
            if len(got) != 1 or typed(got[0].split("\t")[bc], types[bc]) != pval:
                raise Violation("constant %s in program text stored as %r" % (exc, got), {"case": case})
        elif res.rr.rc != 0 and pv == "accept":
            raise Violation("valid in-range constant %s rejected in program text: %s" % (exc, res.rr.err[-600:]), {"case": case})
        if st is not None:
            label(st, case, pv, "program")
        return
    nest = case.get("nest")
    if nest:
        T = types[bc]
        tdef = ".type N = [a:%s, s:symbol]\n" % T if nest == "rec" else ".type N = W {a:%s} | P {a:%s, s:symbol}\n" % (T, T)
        decl = tdef + ".decl r(%s)\n" % ", ".join("c%d:%s" % (i, "N" if i == bc else t) for i, t in enumerate(types))
        # inside a nested value only the range rule is asserted: a complete numeric literal of the component's type that is not
        # representable must be rejected, a canonical representable one accepted with its value; other spellings are not judged
        # (the nested grammar skips blanks and delimits components itself)
        if verdict == "reject" and not (re.match(r"-?[0-9]+$", exc) if T != "float" else FLT_RE.match(exc)):
            verdict, val = "lenient", None
        elif verdict == "lenient":
            val = None
    prog = decl + ".input r\n.output r\n"
    res = runner.run_program(prog, {"r.facts": case["file"]})
    rr = res.rr
    if rr.timeout:
        raise Violation("the loader hangs on this fact file", {"case": case})
    if rr.signal:
        raise Violation("the loader died with signal %s: %s" % (rr.signal, rr.err[-600:]), {"case": case})
    if rr.rc not in (0, 1):
        raise Violation("unexpected exit status %s: %s" % (rr.rc, rr.err[-600:]), {"case": case})
    if shape == "missing_col" and len(types) >= 2:
        verdict, val = "reject", None
    elif shape in ("extra_col", "crlf"):
        verdict = "lenient" if verdict != "reject" else ("reject" if shape == "extra_col" else "lenient")
        if shape == "crlf":
            val = None
    if rr.rc == 1:
        if verdict == "accept":
            raise Violation("a canonical in-range %s literal %r was rejected: %s" % (types[bc], exc, rr.err[-600:]), {"case": case})
        if "r.facts" not in rr.err or not re.search(r"line %d\b" % (bl + 1), rr.err):
            raise Violation("loading failed but the error does not name the fact file and line %d: %s" % (bl + 1, rr.err[-600:]), {"case": case})
    else:
        if verdict == "reject":
            raise Violation("invalid / out-of-range %s field %r (line %d) was accepted; stored relation: %r" % (
                types[bc], exc, bl + 1, (res.outputs.get("r") or [])[:6]), {"case": case})
        got = res.outputs.get("r")
        if got is None:
            raise Violation("exit 0 but no output", {"case": case})
        if shape == "ok" or shape == "no_final_newline":
            # every line must be stored with exactly the written values (as a set of typed tuples)
            try:
                got_t = {tuple(typed(unwrap(nest, x) if (nest and j == bc) else x, t) for j, (x, t) in enumerate(zip(ln.split("\t"), types)))
                         for ln in got}
            except ValueError:
                raise Violation("unparsable output %r" % got[:4], {"case": case})
            want = set()
            checkable = True
            for i, r in enumerate(case["rows"]):
                tup = []
                for j, (x, t) in enumerate(zip(r, types)):
                    if i == bl and j == bc:
                        if val is None:
                            checkable = False
                            tup.append(None)
                        else:
                            tup.append(val)
                    else:
                        tup.append(typed(x, t))
                want.add(tuple(tup))
            if checkable:
                if got_t != want:
                    raise Violation("the loader silently stored different values: written %r, stored %r" % (sorted(want, key=repr)[:6], sorted(got_t, key=repr)[:6]), {"case": case})
            else:
                others = {t for t in want if None not in t}
                if not others <= got_t or len(got_t) > len(want):
                    raise Violation("the loader lost or invented tuples: written %r, stored %r" % (case["rows"], got[:6]), {"case": case})
    if st is not None:
        label(st, case, verdict, "facts")


def label(st, case, verdict, where):
    ty = case["types"][case["bad"][1]]
    st.classes["%s:%s:%s" % (where, ty, verdict)] += 1
    if case["shape"] != "ok":
        st.classes["shape:" + case["shape"]] += 1
    if case["near"] or verdict == "reject":
        st.nontrivial.add(common.h(repr(case["types"]) + case["file"] + where))
        if len(st.samples) < 4:
            st.samples.append({"types": case["types"], "file": case["file"], "excursion": case["exc"], "verdict_by_reference": verdict, "where": where})


CHECK = PCheck(PID, RULE, gen, judge, quick=2500, thorough=60000, floor=150,
               assumptions=["end-to-end through the interpreter's .input path (ReadStreamCSV)", "the verdict classes are fixed by the independent reader before souffle runs"])
main, replay_file = CHECK.main, CHECK.replay_file
