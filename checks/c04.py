"""C04 -- optional AST optimisations and inline annotations preserve output relations."""
from vlib import dlgen, runner, common
from vlib.common import Violation
from vlib.dlgen import Atom, Neg, Cmp, Agg, Var, Wild, RecInit, Fn, Const
from vlib.pcheck import PCheck

PID = "C04"
OPT = ["MinimiseProgramTransformer", "RemoveRelationCopiesTransformer", "RemoveEmptyRelationsTransformer",
       "RemoveRedundantRelationsTransformer", "ReduceExistentialsTransformer", "ReplaceSingletonVariablesTransformer",
       "PartitionBodyLiteralsTransformer", "SimplifyConstantBinaryConstraintsTransformer", "RemoveRedundantSumsTransformer"]
INLINE_DIAG = ["Cannot inline", "cannot be inlined"]
RULE = ("dlgen programs with a generated subset of IDB relations as outputs; variant = --disable-transformers=<one pass, or in "
        "30% a random subset of the 9 optional passes> and/or `inline`/`no_inline` marks on non-output, non-recursive relations "
        "chosen to satisfy the semantic checker's inline rules (cases it still rejects with a 'Cannot inline' diagnostic are "
        "discarded and counted). Output relations compared as multisets. Non-trivial = a disabled pass is reported [changed] "
        "by the default pipeline's -v log, or an inline mark sits on a relation that is used in some rule body, and some "
        "output is non-empty; distinct by hash of (program, variant).")


def _atoms(lits, neg=False, inagg=False):
    for l in lits:
        if isinstance(l, Atom):
            yield l, neg, inagg
            for a in l.args:
                yield from _term_atoms(a)
        elif isinstance(l, Neg):
            yield l.atom, True, inagg
        elif isinstance(l, Cmp):
            yield from _term_atoms(l.lhs)
            yield from _term_atoms(l.rhs)


def _term_atoms(t):
    if isinstance(t, Agg):
        yield from _atoms(t.body, False, True)
    elif isinstance(t, (Fn, RecInit)):
        for a in t.args:
            yield from _term_atoms(a)


def _vars(t, acc):
    if isinstance(t, Var):
        acc.add(t.name)
    elif isinstance(t, (Fn, RecInit)):
        for a in t.args:
            _vars(a, acc)
    elif isinstance(t, Wild):
        acc.add("_")
    return acc


def inline_candidates(P):
    used_neg, used_agg, used = set(), set(), set()
    neg_wild = set()
    for r in P.rules:
        for at, neg, inagg in _atoms(r.body):
            used.add(at.rel)
            if neg:
                used_neg.add(at.rel)
                if any(isinstance(a, Wild) for a in at.args):
                    neg_wild.add(at.rel)
            if inagg:
                used_agg.add(at.rel)
    cands = []
    for n in P.order:
        rel = P.rels[n]
        if rel.kind != "idb" or rel.output or rel.recursive or n in used_agg or n in neg_wild:
            continue
        if any(isinstance(t, dlgen.RecT) for t in rel.types):
            continue   # known finding F20 (inline + record-typed attribute asserts in BindingStore); probed separately
        if n in used_neg:
            ok = True
            for r in P.rules_of(n):
                # head arguments must be plain variables/constants: a record or functor in the head of a negated
                # inlined relation is rejected later ("Ungrounded record"), i.e. not an accepted annotation
                ok = ok and all(isinstance(a, (Var, Const)) and not isinstance(a.ty, dlgen.RecT) for a in r.head.args)
                hv = set()
                for a in r.head.args:
                    _vars(a, hv)
                bv = set()
                for l in r.body:
                    if isinstance(l, Atom):
                        for a in l.args:
                            _vars(a, bv)
                    else:
                        ok = ok and isinstance(l, Cmp) and not isinstance(l.rhs, Agg) and not isinstance(l.lhs, Agg)
                        if isinstance(l, Cmp):
                            _vars(l.lhs, bv)
                            _vars(l.rhs, bv)
                        else:
                            ok = False
                if not bv <= hv:
                    ok = False
            if not ok:
                continue
        cands.append(n)
    return cands, used


def gen(ch):
    P = dlgen.generate(ch, dlgen.Feat())
    idb = [n for n in P.order if P.rels[n].kind == "idb"]
    outs = [n for n in idb if ch.bool(0.5)] or [idb[-1]]
    for n in idb:
        P.rels[n].output = n in outs
    base_text, facts = dlgen.to_souffle(P)
    variant = {"args": []}
    cands, used = inline_candidates(P)
    marks = {}
    mode = ch.weighted([(5, "disable"), (3, "inline"), (2, "both")]) if cands else "disable"
    if mode in ("disable", "both"):
        dis = (ch.subset(OPT, 0.3) or [ch.choice(OPT)]) if ch.bool(0.3) else [ch.choice(OPT)]
        variant["args"].append("--disable-transformers=" + ",".join(dis))
    excluded = False
    if mode == "both" and "RemoveRedundantRelationsTransformer" in dis:
        # known finding F18: an inlined relation that RemoveRedundantRelations does not delete afterwards trips
        # 'variable not grounded' in the RAM translator; excluded here, re-tested by the dedicated probe
        dis = [d for d in dis if d != "RemoveRedundantRelationsTransformer"] or ["MinimiseProgramTransformer"]
        variant["args"] = ["--disable-transformers=" + ",".join(dis)]
        excluded = True
    if mode in ("inline", "both"):
        for n in cands:
            if ch.bool(0.6):
                marks[n] = ch.weighted([(3, "inline"), (1, "no_inline")])
        if not marks:
            marks[ch.choice(cands)] = "inline"
        for n, q in marks.items():
            P.rels[n].quals.append(q)
        variant["program"] = dlgen.to_souffle(P)[0]
    return {"program": base_text, "facts": facts, "base": {"args": []}, "variant": variant, "relations": outs,
            "marks": marks, "marks_used": sorted(n for n in marks if n in used), "excluded_known": excluded}


def judge(case, st=None):
    base = {"args": list(case["base"]["args"]) + ["-v"]}
    a = runner.run_cfg(case, base)
    runner.classify_failure(a, "base", case)
    b = runner.run_cfg(case, case["variant"])
    runner.classify_failure(b, "variant", case, accept_diag=INLINE_DIAG)
    msgs = runner.compare_outputs(a.outputs, b.outputs, case["relations"])
    if msgs:
        raise Violation("output relations differ between the default pipeline and %r marks=%r:\n%s" % (
            case["variant"]["args"], case.get("marks"), "\n".join(msgs)), {"case": case})
    if st is not None:
        if case.get("excluded_known"):
            st.known["F18:inline+disable RemoveRedundantRelations"] += 1
        changed = {ln.split(" ", 1)[0] for ln in a.rr.out.split("\n") if ln.endswith("[changed]") and " time: " in ln}
        dis = []
        for x in case["variant"]["args"]:
            if x.startswith("--disable-transformers="):
                dis = x.split("=", 1)[1].split(",")
        fired = [d for d in dis if d in changed]
        inl = [n for n in case["marks_used"] if case["marks"][n] == "inline"]
        nonempty = any(a.outputs.get(n) for n in case["relations"])
        if (fired or inl) and nonempty:
            st.nontrivial.add(common.h(case["program"] + repr(case["variant"])))
            for d in fired:
                st.classes["fired:" + d] += 1
            if inl:
                st.classes["inline_on_used_relation"] += 1
            st.sample({"program": case["variant"].get("program", case["program"]), "facts": case["facts"],
                       "variant_args": case["variant"]["args"], "outputs": case["relations"]})
        else:
            st.classes["trivial"] += 1


F18_PROGRAM = '''.decl e0(a0:number, a1:unsigned)
e0(0, 0).
.decl r0(a0:unsigned, a1:float)
.decl r1(a0:number) inline
.decl r2(a0:number, a1:number)
.output r2
r0(0, 0.0) :- e0(v1, v2).
r0(0, 0.0) :- r0(v3, v4).
r1(0) :- r0(v5, v6).
r2(0, 0) :- r0(v7, v8).
'''


def known_match(case, v):
    args = " ".join(case.get("variant", {}).get("args", []))
    if "RemoveRedundantRelationsTransformer" in args and "inline" in (case.get("marks") or {}).values() \
            and "variable not grounded" in v["msg"]:
        return ([f for f in common.findings_for(PID) if f["key"] == "F18"] or [None])[0]
    if "expected args to be variables" in v["msg"] and "inline" in (case.get("marks") or {}).values() \
            and ".type" in case.get("variant", {}).get("program", ""):
        return ([f for f in common.findings_for(PID) if f["key"] == "F20"] or [None])[0]
    return None


F20_PROGRAM = '''.type Rec0 = [f0:number, f1:unsigned]
.decl e0(a0:unsigned, a1:number)
e0(0, 0).
.decl r0(a0:number, a1:Rec0) inline
.decl r1(a0:number, a1:float) no_inline
.decl r2(a0:Rec0, a1:Rec0)
.output r2
r0(0, [0, 0]) :- e0(0, v1), 0 != v1, !e0(0, v1).
r1(0, 0.0) :- e0(v2, v3), r0(v4, v5), e0(v6, v7), (v3 + v3) != v3, v4 != v3, 0 != v3.
r2([v8, 0], v9) :- r0(v8, v9).
r2([0, 0], [0, 0]) :- e0(v10, v11), e0(v12, v13), e0(v14, v15).
r2([0, 0], [0, 0]) :- r1(v16, v17), e0(v18, v19).
'''


def probes(st, tier, seed):
    """re-test the known trigger; print KNOWN-FINDING only while it still fails"""
    for f in common.findings_for(PID):
        if f["key"] == "F20":
            res = runner.run_program(F20_PROGRAM, {})
            if res.rr.rc not in (0, None) and "expected args to be variables" in res.rr.err:
                st.known_lines.append(f["what"])
        if f["key"] == "F18":
            res = runner.run_program(F18_PROGRAM, {}, args=["--disable-transformers=RemoveRedundantRelationsTransformer"])
            if res.rr.rc not in (0, None) and "variable not grounded" in res.rr.err:
                st.known_lines.append(f["what"])


CHECK = PCheck(PID, RULE, gen, judge, quick=2000, thorough=40000, floor=50, known_match=known_match, probes=probes,
               assumptions=["interpreter back end", "inline legality as read from SemanticChecker; rejected marks are discarded, not judged"])
main, replay_file = CHECK.main, CHECK.replay_file
