"""C04 -- optional AST optimisations and inline annotations preserve output relations."""
from vlib import dlgen, runner, common
from vlib.common import Violation
from vlib.dlgen import Atom, Neg, Cmp, Agg, Var, Wild, RecInit, Fn, Const
from vlib.pcheck import PCheck

PID = "C04"
OPT = ["MinimiseProgramTransformer", "RemoveRelationCopiesTransformer", "RemoveEmptyRelationsTransformer",
       "RemoveRedundantRelationsTransformer", "ReduceExistentialsTransformer", "ReplaceSingletonVariablesTransformer",
       "PartitionBodyLiteralsTransformer", "SimplifyConstantBinaryConstraintsTransformer", "RemoveRedundantSumsTransformer"]
INLINE_DIAG = ["Cannot inline", "cannot be inlined"]
RULE = ("dlgen programs with a generated subset of IDB relations as outputs; variant = --disable-transformers=<one pass, or in "
        "30% a random subset of the 9 optional passes> and/or `inline`/`no_inline` marks on non-output, non-recursive relations "
        "chosen to satisfy the semantic checker's inline rules (cases it still rejects with a 'Cannot inline' diagnostic are "
        "discarded and counted). Output relations compared as multisets. Non-trivial = a disabled pass is reported [changed] "
        "by the default pipeline's -v log, or an inline mark sits on a relation that is used in some rule body, and some "
        "output is non-empty; distinct by hash of (program, variant).")


def _atoms(lits, neg=False, inagg=False):
    for l in lits:
        if isinstance(l, Atom):
            yield l, neg, inagg
            for a in l.args:
                yield from _term_atoms(a)
        elif isinstance(l, Neg):
            yield l.atom, True, inagg
        elif isinstance(l, Cmp):
            yield from _term_atoms(l.lhs)
            yield from _term_atoms(l.rhs)


def _term_atoms(t):
    if isinstance(t, Agg):
        yield from _atoms(t.body, False, True)
    elif isinstance(t, (Fn, RecInit)):
        for a in t.args:
            yield from _term_atoms(a)


def _vars(t, acc):
    if isinstance(t, Var):
        acc.add(t.name)
    elif isinstance(t, (Fn, RecInit)):
        for a in t.args:
            _vars(a, acc)
    elif isinstance(t, Wild):
        acc.add("_")
    return acc


def inline_candidates(P):
    used_neg, used_agg, used = set(), set(), set()
    neg_wild = set()
    for r in P.rules:
        for at, neg, inagg in _atoms(r.body):
            used.add(at.rel)
            if neg:
                used_neg.add(at.rel)
                if any(isinstance(a, Wild) for a in at.args):
                    neg_wild.add(at.rel)
            if inagg:
                used_agg.add(at.rel)
    cands = []
    for n in P.order:
        rel = P.rels[n]
        if rel.kind != "idb" or rel.output or rel.recursive or n in used_agg or n in neg_wild:
            continue
        if any(isinstance(t, dlgen.RecT) for t in rel.types) and any(
                isinstance(a, Const) and a.val is None for r in P.rules_of(n) for a in r.head.args):
            continue   # known finding F28 (inlined head holds nil, a use site holds a record pattern); probed separately
        if n in used_neg:
            ok = True
            for r in P.rules_of(n):
                # head arguments must be plain variables/constants: a record or functor in the head of a negated
                # inlined relation is rejected later ("Ungrounded record"), i.e. not an accepted annotation
                ok = ok and all(isinstance(a, (Var, Const)) and not isinstance(a.ty, dlgen.RecT) for a in r.head.args)
                hv = set()
                for a in r.head.args:
                    _vars(a, hv)
                bv = set()
                for l in r.body:
                    if isinstance(l, Atom):
                        for a in l.args:
                            _vars(a, bv)
                    else:
                        ok = ok and isinstance(l, Cmp) and not isinstance(l.rhs, Agg) and not isinstance(l.lhs, Agg)
                        if isinstance(l, Cmp):
                            _vars(l.lhs, bv)
                            _vars(l.rhs, bv)
                        else:
                            ok = False
                if not bv <= hv:
                    ok = False
            if not ok:
                continue
        cands.append(n)
    return cands, used


def inject_shapes(P, ch):
    """add program shapes that the optional passes rewrite (DESIGN 4/C04): cloned single-clause relations (also with a
    different representation or a choice-domain), duplicated clauses with permuted bodies and renamed variables, copy
    relations (plain and through record patterns), constant-constant constraints in alternative spellings, sums of a
    constant. Returns (names of added output relations, names excluded from comparison, labels)."""
    added, excluded, labels = [], [], []
    NUM = dlgen.NUMBER
    fresh = [0]

    def new_rel(types, tag):
        fresh[0] += 1
        r = dlgen.Rel("x%s%d" % (tag, fresh[0]), list(types), "idb")
        r.group = len(P.groups)
        P.add_rel(r)
        P.groups.append([r.name])
        return r
    singles = [n for n in P.order if P.rels[n].kind == "idb" and not P.rels[n].recursive and len(P.rules_of(n)) == 1]
    # (s1) clone of a single-clause relation
    for _ in range(ch.int(0, 2)):
        if not singles:
            break
        n = ch.choice(singles)
        src = P.rels[n]
        variant = ch.weighted([(3, "same"), (2, "brie"), (3, "choice")])
        if variant == "choice" and len(src.types) == 0:
            variant = "same"
        c = new_rel(src.types, "c")
        P.rules.append(dlgen.copy_rule(P.rules_of(n)[0], head_rel=c.name))
        if variant == "brie":
            c.quals.append("brie")
        elif variant == "choice":
            c.extra_decl = "choice-domain " + c.attrs[ch.int(0, len(c.attrs) - 1)]
            excluded.append(c.name)
        src.output = True
        if src.name not in added:
            added.append(src.name)
        if variant != "choice":
            added.append(c.name)
        else:
            c.output = True
        labels.append("shape:clone_" + variant)
    # (s2) duplicated clause, body permuted, variables renamed
    for _ in range(ch.int(0, 2)):
        cands = [r for r in P.rules if r.body and "rec" not in r.tags]
        if not cands:
            break
        r = ch.choice(cands)
        d = dlgen.copy_rule(r, ren=lambda nm: nm + "d")
        d.order = ch.shuffle(list(range(len(d.body))))
        P.rules.insert(P.rules.index(r) + 1, d)
        labels.append("shape:duplicate_clause")
    # (s3) copy relation (plain variables or record patterns)
    for _ in range(ch.int(0, 2)):
        srcs = [P.rels[n] for n in P.order if len(P.rels[n].types) > 0 and P.rels[n].name not in excluded]
        if not srcs:
            break
        src = ch.choice(srcs)
        c = new_rel(src.types, "k")
        k = [0]

        def pat(ty, depth=0):
            k[0] += 1
            if isinstance(ty, dlgen.RecT) and depth < 2 and ch.bool(0.5):
                return dlgen.RecInit([pat(ft, depth + 1) for ft in ty.fields], ty)
            return Var("c%d_%d" % (fresh[0], k[0]), ty)
        args = [pat(t) for t in src.types]
        P.rules.append(dlgen.Rule(Atom(c.name, args), [Atom(src.name, [dlgen.copy_term(a, lambda nm: nm) for a in args])]))
        added.append(c.name)
        labels.append("shape:copy_relation" + ("_record_pattern" if any(isinstance(a, RecInit) for a in args) else ""))
    # (s4) constant-constant constraints in alternative spellings
    for _ in range(ch.int(0, 2)):
        cands = [r for r in P.rules if r.body]
        if not cands:
            break
        r = ch.choice(cands)
        ty = ch.choice([NUM, dlgen.UNSIGNED, dlgen.FLOAT])
        v = dlgen.gen_value(ch, ty, dlgen.Feat(), small_only=True)
        if ty == NUM and v < 0:
            v = -v
        w = v if ch.bool(0.6) else dlgen.gen_value(ch, ty, dlgen.Feat(), small_only=True)
        if ty == NUM and w < 0:
            w = -w
        a = Const(v, ty, dlgen.alt_spelling(ch, v, ty) if ch.bool(0.7) else None)
        b = Const(w, ty, dlgen.alt_spelling(ch, w, ty) if ch.bool(0.4) else None)
        r.body.append(Cmp(ch.choice(["=", "!="]), a, b, ty))
        r.order.append(len(r.body) - 1)
        labels.append("shape:const_constraint")
    # (s5) sum of a constant
    if ch.bool(0.3):
        srcs = [P.rels[n] for n in P.order if len(P.rels[n].types) > 0 and P.rels[n].name not in excluded]
        if srcs:
            src = ch.choice(srcs)
            c = new_rel([NUM], "s")
            loc = [Var("s%d_%d" % (fresh[0], i), t) for i, t in enumerate(src.types)]
            z = Var("s%d_z" % fresh[0], NUM)
            agg = Agg("sum", Const(ch.int(1, 4), NUM), [Atom(src.name, list(loc))], NUM, list(loc))
            P.rules.append(dlgen.Rule(Atom(c.name, [z]), [Cmp("=", z, agg, NUM)]))
            added.append(c.name)
            labels.append("shape:sum_of_constant")
    return added, excluded, labels


def gen(ch):
    P = dlgen.generate(ch, dlgen.Feat())
    idb = [n for n in P.order if P.rels[n].kind == "idb"]
    outs = [n for n in idb if ch.bool(0.5)] or [idb[-1]]
    for n in idb:
        P.rels[n].output = n in outs
    shape_labels = []
    if ch.bool(0.6):
        added, excluded, shape_labels = inject_shapes(P, ch)
        # the passes leave IO relations alone: the injected relations stay internal and are observed through reader relations
        for n in added:
            src = P.rels[n]
            if src.kind != "idb" or n in outs:
                continue
            src.output = False
            rd = dlgen.Rel("o_" + n, list(src.types), "idb")
            rd.group = len(P.groups)
            P.add_rel(rd)
            P.groups.append([rd.name])
            vs = [Var("o%d" % i, t) for i, t in enumerate(src.types)]
            P.rules.append(dlgen.Rule(Atom(rd.name, list(vs)), [Atom(n, list(vs))]))
            rd.output = True
            outs.append(rd.name)
        for n in excluded:
            P.rels[n].output = True
        outs = [n for n in outs if n not in excluded]
    variant = {"args": []}
    cands, used = inline_candidates(P)
    marks = {}
    mode = ch.weighted([(5, "disable"), (3, "inline"), (2, "both")]) if cands else "disable"
    if mode in ("inline", "both"):
        for n in cands:
            if ch.bool(0.6):
                marks[n] = ch.weighted([(3, "inline"), (1, "no_inline")])
        if not marks:
            marks[ch.choice(cands)] = "inline"
        # readers that use an inlined relation several times in one clause, with unnamed arguments, joined and unjoined
        multi = [n for n in marks if marks[n] == "inline" and len(P.rels[n].types) >= 1
                 and not any(isinstance(t, dlgen.RecT) for t in P.rels[n].types)]
        for n in multi[:2]:
            if not ch.bool(0.7):
                continue
            src = P.rels[n]
            k = ch.int(0, len(src.types) - 1)
            v1, v2 = Var("m1", src.types[k]), Var("m2", src.types[k])
            a1 = [v1 if i == k else Wild(t) for i, t in enumerate(src.types)]
            a2 = [v2 if i == k else Wild(t) for i, t in enumerate(src.types)]
            rd = dlgen.Rel("om_" + n, [src.types[k], src.types[k]], "idb")
            rd.group = len(P.groups)
            P.add_rel(rd)
            P.groups.append([rd.name])
            body = [Atom(n, a1), Atom(n, a2)]
            if ch.bool(0.3):
                body.append(Atom(n, [Wild(t) for t in src.types]))
            P.rules.append(dlgen.Rule(Atom(rd.name, [v1, v2]), body))
            rd.output = True
            outs.append(rd.name)
            used.add(n)
            shape_labels.append("shape:inlined_relation_used_twice_with_wildcards")
    base_text, facts = dlgen.to_souffle(P)
    if mode in ("disable", "both"):
        # bias the disabled pass towards the passes the injected shapes are meant for
        match = {"shape:clone": "MinimiseProgramTransformer", "shape:duplicate": "MinimiseProgramTransformer",
                 "shape:copy": "RemoveRelationCopiesTransformer", "shape:const": "SimplifyConstantBinaryConstraintsTransformer",
                 "shape:sum": "RemoveRedundantSumsTransformer"}
        wanted = sorted({v for k, v in match.items() if any(l.startswith(k) for l in shape_labels)})
        if wanted and ch.bool(0.65):
            dis = [ch.choice(wanted)]
            if ch.bool(0.2):
                dis += [d for d in ch.subset(OPT, 0.2) if d not in dis]
        else:
            dis = (ch.subset(OPT, 0.3) or [ch.choice(OPT)]) if ch.bool(0.3) else [ch.choice(OPT)]
        variant["args"].append("--disable-transformers=" + ",".join(dis))
    excluded = False
    if mode == "both" and "RemoveRedundantRelationsTransformer" in dis:
        # known finding F18: an inlined relation that RemoveRedundantRelations does not delete afterwards trips
        # 'variable not grounded' in the RAM translator; excluded here, re-tested by the dedicated probe
        dis = [d for d in dis if d != "RemoveRedundantRelationsTransformer"] or ["MinimiseProgramTransformer"]
        variant["args"] = ["--disable-transformers=" + ",".join(dis)]
        excluded = True
    if mode in ("inline", "both"):
        for n, q in marks.items():
            P.rels[n].quals.append(q)
        variant["program"] = dlgen.to_souffle(P)[0]
    return {"program": base_text, "facts": facts, "base": {"args": []}, "variant": variant, "relations": outs, "shapes": shape_labels,
            "marks": marks, "marks_used": sorted(n for n in marks if n in used), "excluded_known": excluded}


def judge(case, st=None):
    base = {"args": list(case["base"]["args"]) + ["-v"]}
    a = runner.run_cfg(case, base)
    runner.classify_failure(a, "base", case)
    b = runner.run_cfg(case, case["variant"])
    runner.classify_failure(b, "variant", case, accept_diag=INLINE_DIAG)
    msgs = runner.compare_outputs(a.outputs, b.outputs, case["relations"])
    if msgs:
        raise Violation("output relations differ between the default pipeline and %r marks=%r:\n%s" % (
            case["variant"]["args"], case.get("marks"), "\n".join(msgs)), {"case": case})
    if st is not None:
        if case.get("excluded_known"):
            st.known["F18:inline+disable RemoveRedundantRelations"] += 1
        changed = {ln.split(" ", 1)[0] for ln in a.rr.out.split("\n") if ln.endswith("[changed]") and " time: " in ln}
        dis = []
        for x in case["variant"]["args"]:
            if x.startswith("--disable-transformers="):
                dis = x.split("=", 1)[1].split(",")
        fired = [d for d in dis if d in changed]
        inl = [n for n in case["marks_used"] if case["marks"][n] == "inline"]
        nonempty = any(a.outputs.get(n) for n in case["relations"])
        if (fired or inl) and nonempty:
            st.nontrivial.add(common.h(case["program"] + repr(case["variant"])))
            for d in fired:
                st.classes["fired:" + d] += 1
            for l in set(case.get("shapes", [])):
                st.classes[l] += 1
            if inl:
                st.classes["inline_on_used_relation"] += 1
            st.sample({"program": case["variant"].get("program", case["program"]), "facts": case["facts"],
                       "variant_args": case["variant"]["args"], "outputs": case["relations"]})
        else:
            st.classes["trivial"] += 1


F18_PROGRAM = '''.decl e0(a0:number, a1:unsigned)
e0(0, 0).
.decl r0(a0:unsigned, a1:float)
.decl r1(a0:number) inline
.decl r2(a0:number, a1:number)
.output r2
r0(0, 0.0) :- e0(v1, v2).
r0(0, 0.0) :- r0(v3, v4).
r1(0) :- r0(v5, v6).
r2(0, 0) :- r0(v7, v8).
'''


def known_match(case, v):
    args = " ".join(case.get("variant", {}).get("args", []))
    if "RemoveRedundantRelationsTransformer" in args and "inline" in (case.get("marks") or {}).values() \
            and "variable not grounded" in v["msg"]:
        return ([f for f in common.findings_for(PID) if f["key"] == "F18"] or [None])[0]
    if "variable not grounded" in v["msg"] and "inline" in (case.get("marks") or {}).values() and "nil" in case.get("variant", {}).get("program", "") \
            and ".type" in case.get("variant", {}).get("program", ""):
        return ([f for f in common.findings_for(PID) if f["key"] == "F28"] or [None])[0]
    if "expected args to be variables" in v["msg"] and "inline" in (case.get("marks") or {}).values() \
            and ".type" in case.get("variant", {}).get("program", ""):
        return ([f for f in common.findings_for(PID) if f["key"] == "F20"] or [None])[0]
    return None


F20_PROGRAM = '''.type Rec0 = [f0:number, f1:unsigned]
.decl e0(a0:unsigned, a1:number)
e0(0, 0).
.decl r0(a0:number, a1:Rec0) inline
.decl r1(a0:number, a1:float) no_inline
.decl r2(a0:Rec0, a1:Rec0)
.output r2
r0(0, [0, 0]) :- e0(0, v1), 0 != v1, !e0(0, v1).
r1(0, 0.0) :- e0(v2, v3), r0(v4, v5), e0(v6, v7), (v3 + v3) != v3, v4 != v3, 0 != v3.
r2([v8, 0], v9) :- r0(v8, v9).
r2([0, 0], [0, 0]) :- e0(v10, v11), e0(v12, v13), e0(v14, v15).
r2([0, 0], [0, 0]) :- r1(v16, v17), e0(v18, v19).
'''


F28_PROGRAM = '''.type Rec0 = [f0:float, f1:number, f2:float]
.type Rec1 = [f0:number, f1:float]
.decl e1(a0:number, a1:number)
e1(3, 0).
.decl r0(a0:Rec0) inline
.decl r1(a0:Rec1)
.output r1
r0(nil) :- e1(v1, 0).
r1([v7, 0.0]) :- r0(nil), r0([v6, v7, v8]), 0 != v7.
'''


def probes(st, tier, seed):
    """re-test the known trigger; print KNOWN-FINDING only while it still fails"""
    for f in common.findings_for(PID):
        if f["key"] == "F28":
            res = runner.run_program(F28_PROGRAM, {})
            if res.rr.rc not in (0, None) and "variable not grounded" in res.rr.err:
                st.known_lines.append(f["what"])
        if f["key"] == "F20":
            res = runner.run_program(F20_PROGRAM, {})
            if res.rr.rc not in (0, None) and "expected args to be variables" in res.rr.err:
                st.known_lines.append(f["what"])
        if f["key"] == "F18":
            res = runner.run_program(F18_PROGRAM, {}, args=["--disable-transformers=RemoveRedundantRelationsTransformer"])
            if res.rr.rc not in (0, None) and "variable not grounded" in res.rr.err:
                st.known_lines.append(f["what"])


# saved inputs of repaired defects (regression tier: they must run, and give the same outputs as with every optional pass disabled
# where stated)
REGRESSIONS = [
    ("F20 (inline + record head, consumer no_inline)", F20_PROGRAM, []),
    ("inlined atom inside a no_inline relation", ".decl r2(a0:number) inline\n.decl xk3(a0:number) no_inline\n.decl o(a0:number)\n.output o\n"
     "xk3(c) :- r2(c).\no(x) :- xk3(x).\nr2(-1).\n", []),
    ("ReduceExistentials below a nullary recursive clause", ".decl e2(a0:number)\ne2(0).\n.decl r1(a0:number)\n.output r1\n.decl r2()\n"
     "r1(0) :- r2().\nr2() :- r1(v6).\nr2() :- r2(), r2(), e2(v7), 0 != v7.\n", ["--disable-transformers=MinimiseProgramTransformer"]),
    ("negative value substituted into an unsigned cast", ".decl e(x:number)\ne(1). e(-5).\n.decl r(x:number)\n.output r\n"
     "r(x) :- e(x), y = -1, as(x, unsigned) <= as(y, unsigned).\n", []),
]


def regressions(st):
    for name, prog, args in REGRESSIONS:
        res = runner.run_program(prog, {}, args=args)
        st.classes["regression_inputs_of_repaired_defects"] += 1
        if res.rr.timeout:
            continue
        if res.rr.rc != 0:
            st.violations.append({"case": {"program": prog, "facts": {}, "base": {"args": []}, "variant": {"args": args}, "relations": [],
                                           "marks": {}, "marks_used": [], "regression": name},
                                  "msg": "regression input of a repaired defect fails again (%s): rc=%s\n%s" % (name, res.rr.rc, res.rr.err[-600:]),
                                  "selfevident": True})


_probes_known = probes


def probes(st, tier, seed):   # noqa: F811
    _probes_known(st, tier, seed)
    regressions(st)


CHECK = PCheck(PID, RULE, gen, judge, quick=2000, thorough=40000, floor=50, known_match=known_match, probes=probes,
               assumptions=["interpreter back end", "inline legality as read from SemanticChecker; rejected marks are discarded, not judged"])
main, replay_file = CHECK.main, CHECK.replay_file
