"""C06 -- RAM-level optimisations preserve results: skip each RAM pass (hook SOUFFLE_VERIF_SKIP_RAM) and compare."""
import time, json
from vlib import dlgen, runner, common
from vlib.common import Violation, Discard, Inconclusive, Stats
from vlib.hyp import hyp_run

PID = "C06"
PASSES = ["MakeIndexTransformer", "ExpandFilterTransformer", "HoistConditionsTransformer", "IfConversionTransformer",
          "IfExistsConversionTransformer", "CollapseFiltersTransformer", "TupleIdTransformer", "HoistAggregateTransformer",
          "EliminateDuplicatesTransformer", "ReorderConditionsTransformer", "ReorderFilterBreak", "ParallelTransformer"]
RULE = ("dlgen programs x a set of RAM transformers skipped through the SOUFFLE_VERIF_SKIP_RAM hook (single passes; in "
        "~30% of cases a random subset), interpreter at -j1 or -j4; all output relations compared as multisets with the full "
        "pipeline's. Non-trivial = the full pipeline's -v log reports a skipped pass as [changed] (it fired on this "
        "program) and some output relation is non-empty; distinct by hash of (program, skip set).")


def prop_case(ch):
    P = dlgen.generate(ch, dlgen.Feat(adts=True, ranges=True, disjunctions=True, multihead=True))
    text, facts = dlgen.to_souffle(P)
    if ch.bool(0.3):
        skip = ch.subset(PASSES, 0.3) or [ch.choice(PASSES)]
    else:
        skip = [ch.choice(PASSES)]
    j = ch.choice(["-j1", "-j4"])
    excluded = False
    if ".type Adt" in text and "HoistConditionsTransformer" in skip:
        # known finding F26: without condition hoisting the branch-tag test of an ADT pattern stays below the unpack of the
        # branch payload; excluded here (counted) and re-tested by the dedicated probe
        skip = [x for x in skip if x != "HoistConditionsTransformer"] or ["CollapseFiltersTransformer"]
        excluded = True
    return {"program": text, "facts": facts, "base": {"args": [j]}, "excluded_known": excluded,
            "variant": {"args": [j], "env": {"SOUFFLE_VERIF_SKIP_RAM": ",".join(skip)}}}


def judge(case, st=None):
    base = dict(case["base"])
    base["args"] = list(base["args"]) + ["-v"]   # -v lists every transformer with [changed]/[unchanged]
    a = runner.run_cfg(case, base)
    runner.classify_failure(a, "base", case)
    b = runner.run_cfg(case, case["variant"])
    runner.classify_failure(b, "variant", case)
    msgs = runner.compare_outputs(a.outputs, b.outputs)
    if msgs:
        raise Violation("outputs differ between full RAM pipeline and %r:\n%s" % (case["variant"]["env"], "\n".join(msgs)), {"case": case})
    if st is not None:
        if case.get("excluded_known"):
            st.known["F26:HoistConditions skipped with ADT patterns"] += 1
        changed = set()
        for ln in a.rr.out.split("\n"):
            if ln.endswith("[changed]") and " time: " in ln:
                changed.add(ln.split(" ", 1)[0])
        skip = case["variant"]["env"]["SOUFFLE_VERIF_SKIP_RAM"]
        fired = [s for s in skip.split(",") if s in changed]
        nonempty = any(a.outputs.values())
        if fired and nonempty:
            st.nontrivial.add(common.h(case["program"] + skip))
            for s in fired:
                st.classes["fired:" + s] += 1
            st.sample({"program": case["program"], "facts": case["facts"], "skip": skip, "args": case["base"]["args"]})
        else:
            st.classes["pass_did_nothing" if not fired else "empty_outputs"] += 1


F26_PROGRAM = '.type Adt0 = Br0x0 {f0:float} | Br0x1 {f0:number, f1:number} | Br0x2 {f0:number}\n.decl e0(a0:number, a1:Adt0, a2:number)\ne0(0, $Br0x0(0.25), 0).\ne0(0, $Br0x0(0.0), 0).\n.decl e1(a0:number, a1:number)\ne1(0, 0).\n.decl e2(a0:number, a1:number)\ne2(0, 0).\n.decl e3(a0:number)\ne3(0).\n.decl r0(a0:Adt0)\n.output r0\nr0($Br0x0(0.0)) :- e0(v1, $Br0x1(v2, v3), v4).\n'


def probes(st, tier, seed):
    for f in common.findings_for(PID):
        if f["key"] == "F26":
            res = runner.run_program(F26_PROGRAM, {}, args=["-j1"], env={"SOUFFLE_VERIF_SKIP_RAM": "HoistConditionsTransformer"})
            if res.rr.rc not in (0, None):
                st.known_lines.append(f["what"])


from vlib.pcheck import PCheck
CHECK = PCheck(PID, RULE, prop_case, judge, quick=2000, thorough=30000, probes=probes,
               assumptions=["the hook only prevents a named non-meta RAM transformer from running", "interpreter back end"], floor=50)
main, replay_file = CHECK.main, CHECK.replay_file
