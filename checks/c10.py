"""C10 -- choice-domain relations are functional, sound and maximal in every mode and thread schedule."""
import copy
from vlib import dlgen, dlref, runner, common
from vlib.common import Violation, Discard, Inconclusive
from vlib.dlgen import Rel, Rule, Atom, Neg, Cmp, Var, Const, Fn, Program, NUMBER
from vlib.refops import OutOfDomain
from vlib.pcheck import PCheck

PID = "C10"
RULE = ("Generated programs with 1-3 choice-domain relations (arity 2-3; single key, several independent keys, composite keys; "
        "defined by joins over a random EDB with many key collisions, in half the cases also by a recursive rule through the choice "
        "relation itself) and later rules that read them; every relation is an output; interpreter at -jN, N in {1,2,4,8}, with the "
        "seeded perturbation hook in most parallel runs (compiled mode in the thorough tier). Oracle = validity predicate over the "
        "final database D: (1) functional: no two tuples of M agree on a declared key; (2) sound: M is a subset of T(D), the one-step "
        "consequences of M's rules over D computed by the reference evaluator; (3) maximal: every tuple of T(D) not in M agrees with "
        "some tuple of M on some declared key; (4) all other relations equal the reference evaluation given M. Non-trivial = for some "
        "choice relation >= 2 candidates of T(D) compete for a key; distinct by hash of (program, args, env).")


def gen_large(ch):
    """thousands of candidates on few keys, selected through a constant column (index scan), evaluated in parallel"""
    import random
    rng = random.Random(ch.int(0, 1 << 30))    # bulk data only, derived from a generated seed
    nkeys = ch.choice([50, 200, 500])
    n = ch.choice([3000, 10000, 30000])
    src = sorted({(rng.randrange(3), rng.randrange(nkeys), rng.randrange(1000)) for _ in range(n)})
    P = Program()
    X, Y, Z = (Var(v, NUMBER) for v in "xyz")
    e = Rel("src", [NUMBER, NUMBER, NUMBER], "edb")
    e.facts = src
    e.from_file = True
    e.output = False
    P.add_rel(e)
    m = Rel("m0", [NUMBER, NUMBER], "idb")
    m.group = 0
    m.extra_decl = "choice-domain a0"
    P.add_rel(m)
    P.groups.append(["m0"])
    P.rules.append(Rule(Atom("m0", [X, Y]), [Atom("src", [Const(1, NUMBER), X, Y])]))
    if ch.bool(0.5):
        P.rules.append(Rule(Atom("m0", [X, Y]), [Atom("src", [Const(2, NUMBER), X, Y]), Cmp("<", X, Const(nkeys // 3, NUMBER), NUMBER)]))
    s = Rel("s0", [NUMBER], "idb")
    s.group = 1
    P.add_rel(s)
    P.groups.append(["s0"])
    P.rules.append(Rule(Atom("s0", [X]), [Atom("m0", [X, Y]), Cmp(">", Y, Const(500, NUMBER), NUMBER)]))
    for nme in ("m0", "s0"):
        P.rels[nme].output = True
    text, facts = dlgen.to_souffle(P)
    j = ch.choice([4, 8, 16])
    env = {"SOUFFLE_VERIF_PERTURB": str(ch.int(1, 1 << 20))} if ch.bool(0.6) else {}
    return {"program": text, "facts": facts, "args": ["-j%d" % j], "env": env, "keys": {"m0": [[0]]}, "_P": P, "large": True}


def gen(ch):
    if ch.bool(0.2):
        return gen_large(ch)
    P = Program()
    dom = ch.int(3, 7)
    e = Rel("e", [NUMBER, NUMBER], "edb")
    e.facts = sorted({(ch.int(0, dom), ch.int(0, dom)) for _ in range(ch.int(4, 30))})
    e.output = True
    P.add_rel(e)
    k = Rel("k", [NUMBER], "edb")
    k.facts = sorted({(ch.int(0, dom),) for _ in range(ch.int(1, 5))})
    k.output = True
    P.add_rel(k)
    X, Y, Z, W = (Var(n, NUMBER) for n in "xyzw")
    keys = {}
    nch = ch.int(1, 3)
    lower2 = ["e"]
    for i in range(nch):
        ar = ch.choice([2, 2, 3])
        m = Rel("m%d" % i, [NUMBER] * ar, "idb")
        m.group = len(P.groups)
        attrs = m.attrs
        kind = ch.weighted([(4, "single"), (3, "multi"), (3, "composite"), (3, "subsets")])
        if kind == "single":
            ks = [[ch.int(0, ar - 1)]]
        elif kind == "multi":
            a, b = ch.sample(list(range(ar)), 2)
            ks = [[a], [b]]
        elif kind == "composite":
            a, b = sorted(ch.sample(list(range(ar)), 2))
            ks = [[a, b]] + ([[c for c in range(ar) if c not in (a, b)]] if ar == 3 and ch.bool(0.4) else [])
        else:
            # 2-3 arbitrary distinct key sets in arbitrary order (a composite key followed by one of its sub-keys, overlapping keys ...)
            subsets = [[0], [1], [0, 1]] if ar == 2 else [[0], [1], [2], [0, 1], [0, 2], [1, 2], [0, 1, 2]]
            ks = ch.sample(subsets, ch.int(2, 3))
        m.extra_decl = "choice-domain " + ", ".join(attrs[kk[0]] if len(kk) == 1 else "(" + ", ".join(attrs[c] for c in kk) + ")" for kk in ks)
        keys[m.name] = ks
        P.add_rel(m)
        P.groups.append([m.name])
        src = ch.choice(lower2)
        srcrel = P.rels[src]
        # defining rules
        if ar == 2:
            if len(srcrel.types) == 2:
                P.rules.append(Rule(Atom(m.name, [X, Y]), [Atom(src, [X, Y])] if ch.bool(0.5) else [Atom(src, [X, Z]), Atom("e", [Z, Y])]))
            else:
                P.rules.append(Rule(Atom(m.name, [X, Y]), [Atom(src, [X, Y, Z])]))
            if ch.bool(0.4):
                P.rules.append(Rule(Atom(m.name, [Y, X]), [Atom("e", [X, Y]), Atom("k", [X])]))
            if ch.bool(0.5):
                m.recursive = True
                r = Rule(Atom(m.name, [Y, Z]), [Atom(m.name, [X, Y]), Atom("e", [Y, Z])])
                r.tags.add("rec")
                P.rules.append(r)
        else:
            P.rules.append(Rule(Atom(m.name, [X, Y, Z]), [Atom("e", [X, Y]), Atom("e", [Y, Z])]))
            if ch.bool(0.4):
                P.rules.append(Rule(Atom(m.name, [X, X, Y]), [Atom("e", [X, Y])]))
            if ch.bool(0.4):
                m.recursive = True
                r = Rule(Atom(m.name, [Y, Z, W]), [Atom(m.name, [X, Y, Z]), Atom("e", [Z, W])])
                r.tags.add("rec")
                P.rules.append(r)
        lower2.append(m.name)
        # a reader
        if ch.bool(0.7):
            s = Rel("s%d" % i, [NUMBER, NUMBER], "idb")
            s.group = len(P.groups)
            P.add_rel(s)
            P.groups.append([s.name])
            margs = [X, Y] if ar == 2 else [X, Y, Z]
            body = [Atom(m.name, margs)]
            if ch.bool(0.5):
                body.append(Atom("k", [X]))
            if ch.bool(0.3):
                body.append(Neg(Atom("e", [Y, X])))
            P.rules.append(Rule(Atom(s.name, [X, Y]), body))
    for n in P.order:
        P.rels[n].output = True
    text, facts = dlgen.to_souffle(P)
    j = ch.choice([1, 2, 4, 8])
    env = {}
    if j > 1 and ch.bool(0.7):
        env["SOUFFLE_VERIF_PERTURB"] = str(ch.int(1, 1 << 20))
    return {"program": text, "facts": facts, "args": ["-j%d" % j], "env": env, "keys": keys, "_P": P}


def rebuild(case):
    """replay path: re-derive the AST from the stored generator trace is not possible here, so the AST is pickled as text-free
    structure: we simply regenerate from the trace kept by PCheck"""
    from vlib.hyp import Chooser
    return gen(Chooser(trace=case["trace"]))["_P"]


def judge(case, st=None):
    P = case.get("_P") or rebuild(case)
    res = runner.run_program(case["program"], case["facts"], args=case["args"], env=case["env"], timeout=60)
    runner.classify_failure(res, "run", {k: v for k, v in case.items() if k != "_P"})
    pub = {k: (v if k != "facts" or not case.get("large") else {f: x[:2000] + "...(truncated)" for f, x in v.items()}) for k, v in case.items() if k != "_P"}
    try:
        outs = runner.typed_outputs(P, res.outputs)
    except ValueError as ex:
        raise Violation("unparsable output: %s" % ex, {"case": pub})
    D = {}
    msgs = []
    for n in P.order:
        if P.rels[n].kind == "edb" and not P.rels[n].output:
            D[n] = set(P.rels[n].facts)
            continue
        got = outs.get(n)
        if got is None:
            raise Violation("no output for %s" % n, {"case": pub})
        rows, nl = got
        if nl != len(rows):
            msgs.append("%s: %d duplicate line(s)" % (n, nl - len(rows)))
        D[n] = rows
    competing = False
    for mname, ks in case["keys"].items():
        M = D[mname]
        for kk in ks:
            seen = {}
            for t in sorted(M):
                key = tuple(t[c] for c in kk)
                if key in seen:
                    msgs.append("%s is not functional: %r and %r agree on key columns %r" % (mname, seen[key], t, kk))
                    break
                seen[key] = t
        ev = dlref.Evaluator(P, dlref.Budget(steps=10**8, tuples=10**7, rounds=500))
        ev.db = {n: set(D[n]) for n in P.order}
        T = set()
        try:
            for r in P.rules_of(mname):
                T |= ev.fire(r)
        except OutOfDomain:
            raise Discard("ood")
        unsound = sorted(M - T)[:5]
        if unsound:
            msgs.append("%s holds tuples its rules do not derive from the final database: %r" % (mname, unsound))
        present = [{tuple(m[c] for c in kk) for m in M} for kk in ks]
        for t in sorted(T - M):
            if not any(tuple(t[c] for c in kk) in pk for kk, pk in zip(ks, present)):
                msgs.append("%s is not maximal: derivable tuple %r is absent although it clashes with no present tuple on any key" % (mname, t))
                break
        for kk in ks:
            cnt = {}
            for t in T:
                cnt[tuple(t[c] for c in kk)] = cnt.get(tuple(t[c] for c in kk), 0) + 1
            if any(v >= 2 for v in cnt.values()):
                competing = True
    # the other relations given M
    P2 = copy.copy(P)
    P2.rels = dict(P.rels)
    P2.rules = [r for r in P.rules if r.head.rel not in case["keys"]]
    saved = {}
    for mname in case["keys"]:
        rel = copy.copy(P.rels[mname])
        rel.kind = "edb"
        rel.facts = sorted(D[mname])
        P2.rels[mname] = rel
    P2.groups = [g for g in P.groups if g[0] not in case["keys"]]
    try:
        db, _ = dlref.evaluate(P2, dlref.Budget(steps=10**8, tuples=10**7, rounds=500))
    except OutOfDomain:
        raise Discard("ood")
    for n in P.order:
        if n in case["keys"] or P.rels[n].kind == "edb":
            continue
        miss, extra = runner.diff_sets(db[n], D[n])
        if miss or extra:
            msgs.append("%s (reads a choice relation): missing %r spurious %r given the chosen tuples" % (n, miss, extra))
    if msgs:
        raise Violation("choice-domain semantics violated (%s %s):\n%s" % (" ".join(case["args"]), case["env"], "\n".join(msgs[:8])),
                        {"case": pub, "selfevident": True})
    if st is not None:
        if competing:
            st.nontrivial.add(common.h(case["program"] + repr(case["args"]) + repr(case["env"])))
            st.classes["competing_candidates"] += 1
            st.classes[case["args"][0]] += 1
            st.sample({"program": case["program"], "args": case["args"], "env": case["env"],
                       "chosen": {m: sorted(D[m])[:12] for m in case["keys"]}})
        else:
            st.classes["trivial:no_competition"] += 1


class Check(PCheck):
    def worker(self, shard, seed, n, params):
        from vlib.common import Stats
        from vlib.hyp import hyp_run
        st = Stats()

        def prop(ch):
            case = self.gen(ch)
            st.evals += 1
            try:
                self.judge(case, st)
            except Violation as v:
                v.detail.setdefault("case", {}).pop("_P", None)
                raise
        hyp_run(prop, seed, n, st)
        return st


def extra(st):
    return {"schedule_control": "perturbation (seeded yields/sleeps at hook points)"}


CHECK = Check(PID, RULE, gen, judge, quick=1500, thorough=30000, floor=50, extra=extra,
              assumptions=["interpreter back end in the quick tier", "T(D) is computed by the reference evaluator's rule firing over the database souffle wrote"])
main, replay_file = CHECK.main, CHECK.replay_file
