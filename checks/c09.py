"""C09 -- semi-naive evaluation is complete and stage-exact (every tuple is found in exactly the iteration naive evaluation finds it)."""
from vlib import dlgen, dlref, runner, common
from vlib.common import Violation, Discard, Inconclusive
from vlib.refops import OutOfDomain
from vlib.pcheck import PCheck
from vlib.hyp import Chooser
from vlib.dlgen import NUMBER, SYMBOL

PID = "C09"
RULE = ("Generated recursive strata over random graphs: 1-3 patterns per program of linear / left-linear / non-linear transitive closure "
        "(1-2 recursive atoms per rule, several recursive rules per relation), bounded counters, mutual recursion (2 relations per "
        "stratum), same-generation (recursive atom between two non-recursive ones) and reachability with negated lower-stratum filters and "
        "comparison constraints, stacked so that later strata recurse over earlier closures; rules with >= 2 recursive atoms get (40%) a "
        "user `.plan` for a random subset of their versions. Every recursive relation R gets a "
        "`debug_delta(R)` twin, which exposes through the ordinary output path the loop iteration in which each tuple was first found "
        "(R itself is output too). The reference evaluator computes the NAIVE stage of every tuple (Jacobi iteration of the stratum's "
        "immediate-consequence operator). Oracle: same tuples, and iteration(t) == naive_stage(t) for every tuple -- nothing naive "
        "evaluation derives is missed, nothing is found late or early, and the loop stops exactly at the least fixpoint (largest "
        "recorded iteration == last non-empty naive stage). Second family (40%, 'once'): pattern programs and general dlgen programs "
        "(mutual recursion incl. nullary relations, negation, aggregates) whose recursive rules get the extra constraint "
        "`0 = @c09note(<rule>, <every variable bound by a positive atom>)` (wildcards named first, so one binding = one combination of "
        "body tuples); the side-effecting functor logs each evaluation. Oracle: no (rule, binding) is logged twice -- a combination "
        "considered by two versions of the rule or in two iterations is evaluated twice. Non-trivial = a stratum needs >= 3 iterations "
        "and has a rule with >= 2 recursive atoms or 2 mutually recursive relations (stage family), or >= 6 logged combinations with a "
        "rule of >= 2 same-stratum atoms (once family); distinct by hash of the program.")


NOTE_DECL = ".functor c09note(r:number, a:number, b:number, c:number, d:number, e:number, f:number, g:number, h:number):number\n"


def instrument(P):
    """exactly-once clause: every qualifying recursive rule gets the constraint `0 = @c09note(<rule no>, <all variables bound by its
    positive atoms>)`; the functor logs each evaluation. Wildcards of positive atoms are named first, so that one binding of the
    logged variables is one combination of body tuples. Returns {rule no: number of same-stratum atoms}."""
    from vlib.dlgen import Atom, Var, Const, Wild, Fn, Cmp, Or
    group_of = {}
    for g in P.groups:
        for n in g:
            group_of[n] = tuple(g)
    done = {}
    for no, r in enumerate(P.rules):
        g = group_of.get(r.head.rel)
        if g is None or getattr(r, "extra_heads", None) or any(isinstance(l, Or) for l in r.body):
            continue
        atoms = [l for l in r.body if isinstance(l, Atom)]
        nrec = sum(1 for a in atoms if a.rel in g)
        if nrec == 0:
            continue
        if any(not isinstance(x, (Var, Const, Wild)) for a in atoms for x in a.args):
            continue
        fresh = 0
        vars_ = {}
        ok = True
        for a in atoms:
            tys = P.rels[a.rel].types
            for i, x in enumerate(a.args):
                if isinstance(x, Wild):
                    x = a.args[i] = Var("n%d_%d" % (no, fresh), tys[i])
                    fresh += 1
                if isinstance(x, Var):
                    if tys[i] not in dlgen.BASE:
                        ok = False
                    vars_.setdefault(x.name, tys[i])
        if not ok or len(vars_) > 8:
            continue
        args = [Const(no, NUMBER)]
        for name, ty in sorted(vars_.items()):
            v = Var(name, ty)
            args.append(v if ty == NUMBER else Fn("ord", [v], NUMBER) if ty == SYMBOL else Fn("as", [v], NUMBER))
        args += [Const(0, NUMBER)] * (9 - len(args))
        r.body.append(Cmp("=", Const(0, NUMBER), Fn("@c09note", args, NUMBER), NUMBER))
        r.order = list(r.order) + [len(r.body) - 1]
        done[no] = nrec
    return done


def gen_once(ch):
    if ch.bool(0.5):
        P = dlgen.gen_recursive(ch, max_nodes=8, max_edges=14, npatterns=(1, 3), flag=True)
        src = "patterns"
    else:
        P = dlgen.generate(ch, dlgen.Feat(records=False, max_groups=4))
        src = "general"
    inst = instrument(P)
    text, facts = dlgen.to_souffle(P)
    return {"mode": "once", "program": NOTE_DECL + text, "facts": facts, "instrumented": {str(k): v for k, v in inst.items()}, "source": src,
            "j": ch.choice(["-j1", "-j1", "-j4"]), "nullary_in_recursion": any(len(P.rels[n].types) == 0 and P.rels[n].recursive for n in P.order)}


def judge_once(case, st=None):
    import os
    from vlib.common import Scratch, souffle, write_files
    import c12
    if not case["instrumented"]:
        if st is not None:
            st.classes["once:no_recursive_rule_qualifies"] += 1
        return
    with Scratch("c09") as d:
        files = {"p.dl": case["program"]}
        for k, v in case["facts"].items():
            files[os.path.join("facts", k)] = v
        write_files(d, files)
        for sub in ("facts", "out"):
            os.makedirs(os.path.join(d, sub), exist_ok=True)
        # The log only means "combination considered" if the functor is evaluated after every atom of the body has matched
        # (including existence checks and the negated-delta filters of the version). In the emitted RAM the functor conjunct must
        # therefore be the LAST conjunct of an inner filter (souffle's condition ordering puts user-defined functors last; the
        # outermost filter of a query is different: the interpreter evaluates its relation-free conjuncts first). Checked per
        # case on the RAM text; cases where it does not hold are discarded and counted, never judged.
        ram = souffle(["--show=transformed-ram", "-F", "facts", "p.dl"], cwd=d, timeout=30)
        if ram.rc != 0 or ram.timeout:
            raise Discard("once:no_ram")
        prev = ""
        for ln in ram.out.split("\n"):
            t = ln.strip()
            if t.startswith("DEBUG"):
                continue
            k = t.find("@c09note(")
            if k >= 0:
                depth, j = 0, k + len("@c09note")
                while j < len(t):
                    depth += t[j] == "("
                    depth -= t[j] == ")"
                    j += 1
                    if depth == 0:
                        break
                if t[j:].strip(")") != "" or prev == "QUERY":
                    raise Discard("once:functor_not_last_conjunct_of_an_inner_filter")
            if t:
                prev = t
        log = os.path.join(d, "note.log")
        rr = souffle(["-F", "facts", "-D", "out", "-L" + c12.libdir(), "-lfunctors", case["j"], "p.dl"], cwd=d, timeout=60, env={"C09_LOG": log})
        lines = open(log).read().split("\n") if os.path.exists(log) else []
    if rr.timeout:
        raise Inconclusive("timeout:once")
    if rr.rc != 0:
        if "Error" in rr.err and "rror: " in rr.err and rr.rc == 1:
            raise Discard("once:rejected")   # the instrumented text is not accepted (e.g. type of a logged variable): not part of the property
        raise Violation("instrumented program failed: rc=%s\n%s" % (rr.rc, rr.err[-1200:]), {"case": case})
    seen = {}
    for ln in lines:
        if ln:
            seen[ln] = seen.get(ln, 0) + 1
    dup = sorted((ln, c) for ln, c in seen.items() if c > 1)
    if dup:
        raise Violation("a combination of body tuples was considered more than once by the versions / iterations of a recursive rule "
                        "(rule number and variable binding, times evaluated): %r\n%s" % (dup[:6], case["program"]), {"case": case})
    if st is not None:
        multi = any(v >= 2 for v in case["instrumented"].values())
        if len(seen) >= 6 and multi:
            st.nontrivial.add(common.h(case["program"]))
            st.classes["once:multi_recursive_atoms"] += 1
            if case.get("nullary_in_recursion"):
                st.classes["once:nullary_relation_in_recursion"] += 1
            if len(st.samples) < 4 and not any(s.get("mode") == "once" for s in st.samples):
                st.samples.append({"mode": "once", "program": case["program"], "logged_instantiations": len(seen)})
        else:
            st.classes["once:linear_or_small"] += 1


def gen(ch):
    if ch.bool(0.4):
        return gen_once(ch)
    P = dlgen.gen_recursive(ch, max_nodes=10, max_edges=18, npatterns=(1, 3))
    nplans = 0
    for r in P.rules:
        g = [x for x in P.groups if r.head.rel in x][0]
        atoms = [r.body[i] for i in r.order if isinstance(r.body[i], dlgen.Atom)]
        nver = sum(1 for a in atoms if a.rel in g)
        if nver >= 2 and ch.bool(0.4):
            # a user plan for SOME versions of the rule (the others keep the default order): stages must not change
            vs = [v for v in range(nver) if ch.bool(0.5)] or [ch.int(0, nver - 1)]
            r.plan = ".plan " + ", ".join("%d:(%s)" % (v, ",".join(map(str, ch.shuffle(list(range(1, len(atoms) + 1)))))) for v in vs)
            nplans += 1
    text, facts = dlgen.to_souffle(P)
    rec = [n for n in P.order if P.rels[n].recursive and P.rels[n].types]   # (no debug_delta twin for nullary relations)
    extra = "".join(".decl %s_d = debug_delta(%s)\n.output %s_d\n" % (n, n, n) for n in rec)
    return {"program": text + extra, "facts": facts, "rec": rec, "nplans": nplans, "_P": P}


def judge(case, st=None):
    if case.get("mode") == "once":
        return judge_once(case, st)
    P = case.get("_P") or gen(Chooser(trace=case["trace"]))["_P"]
    pub = {k: v for k, v in case.items() if k != "_P"}
    try:
        ev = dlref.Evaluator(P)
        db = ev.run()
    except OutOfDomain as ex:
        raise Discard("ood:" + str(ex).split(":")[0])
    res = runner.run_program(case["program"], case["facts"])
    runner.classify_failure(res, "run", pub)
    msgs = []
    deep = False
    for n in case["rec"]:
        lines = res.outputs.get(n + "_d")
        plain = res.outputs.get(n)
        if lines is None or plain is None:
            msgs.append("%s: no output" % n)
            continue
        got = {}
        for ln in lines:
            cols = [int(x) for x in ln.split("\t")]
            t, it = tuple(cols[:-1]), cols[-1]
            if t in got:
                msgs.append("%s%r recorded in two iterations (%d and %d)" % (n, t, got[t], it))
            got[t] = it
        want = {t: ev.stage[(n, t)] for t in db[n]}
        if set(got) != set(want):
            msgs.append("%s: missing %r spurious %r" % (n, sorted(set(want) - set(got))[:5], sorted(set(got) - set(want))[:5]))
        if {tuple(int(x) for x in ln.split("\t")) for ln in plain} != set(want):
            msgs.append("%s: the relation itself differs from the least fixpoint" % n)
        wrong = [(t, got[t], want[t]) for t in sorted(got) if t in want and got[t] != want[t]]
        if wrong:
            msgs.append("%s: found in another iteration than the naive stage (tuple, iteration, naive stage): %r" % (n, wrong[:6]))
        if want and max(want.values()) >= 3:
            deep = True
    if msgs:
        raise Violation("semi-naive evaluation is not stage-exact:\n" + "\n".join(msgs[:8]), {"case": pub})
    if st is not None:
        multi = any(sum(1 for l in r.body if isinstance(l, dlgen.Atom) and l.rel in g) >= 2 for g in P.groups for r in P.rules if r.head.rel in g) \
            or any(len(g) >= 2 for g in P.groups)
        if deep and multi:
            st.nontrivial.add(common.h(case["program"]))
            st.classes["deep_and_multi_recursive_atoms"] += 1
            if case.get("nplans"):
                st.classes["with_partial_user_plans"] += 1
            st.sample({"program": case["program"], "max_stage": max(ev.stage.values())})
        elif deep:
            st.classes["deep_linear_only"] += 1
        else:
            st.classes["shallow"] += 1


class Check(PCheck):
    def worker(self, shard, seed, n, params):
        from vlib.common import Stats
        from vlib.hyp import hyp_run
        st = Stats()

        def prop(ch):
            case = self.gen(ch)
            st.evals += 1
            self.judge(case, st)
        hyp_run(prop, seed, n, st)
        return st


CHECK = Check(PID, RULE, gen, judge, quick=1500, thorough=40000, floor=80,
              assumptions=["interpreter back end", "debug_delta's <iteration> column is the loop counter at first insertion (0 = non-recursive part)",
                           "the naive stage is computed by the reference evaluator"])
main, replay_file = CHECK.main, CHECK.replay_file
