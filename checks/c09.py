"""C09 -- semi-naive evaluation is complete and stage-exact (every tuple is found in exactly the iteration naive evaluation finds it)."""
from vlib import dlgen, dlref, runner, common
from vlib.common import Violation, Discard, Inconclusive
from vlib.refops import OutOfDomain
from vlib.pcheck import PCheck
from vlib.hyp import Chooser

PID = "C09"
RULE = ("Generated recursive strata over random graphs: 1-3 patterns per program of linear / left-linear / non-linear transitive closure "
        "(1-2 recursive atoms per rule, several recursive rules per relation), bounded counters, mutual recursion (2 relations per "
        "stratum), same-generation (recursive atom between two non-recursive ones) and reachability with negated lower-stratum filters and "
        "comparison constraints, stacked so that later strata recurse over earlier closures. Every recursive relation R gets a "
        "`debug_delta(R)` twin, which exposes through the ordinary output path the loop iteration in which each tuple was first found "
        "(R itself is output too). The reference evaluator computes the NAIVE stage of every tuple (Jacobi iteration of the stratum's "
        "immediate-consequence operator). Oracle: same tuples, and iteration(t) == naive_stage(t) for every tuple -- nothing naive "
        "evaluation derives is missed, nothing is found late or early, and the loop stops exactly at the least fixpoint (largest "
        "recorded iteration == last non-empty naive stage). Not covered: the 'exactly one version considers each combination' clause "
        "when a redundant re-derivation is filtered by the head-already-known check (results and stages stay right). Non-trivial = a "
        "stratum needs >= 3 iterations and has a rule with >= 2 recursive atoms or 2 mutually recursive relations; distinct by hash "
        "of the program.")


def gen(ch):
    P = dlgen.gen_recursive(ch, max_nodes=10, max_edges=18, npatterns=(1, 3))
    text, facts = dlgen.to_souffle(P)
    rec = [n for n in P.order if P.rels[n].recursive]
    extra = "".join(".decl %s_d = debug_delta(%s)\n.output %s_d\n" % (n, n, n) for n in rec)
    return {"program": text + extra, "facts": facts, "rec": rec, "_P": P}


def judge(case, st=None):
    P = case.get("_P") or gen(Chooser(trace=case["trace"]))["_P"]
    pub = {k: v for k, v in case.items() if k != "_P"}
    try:
        ev = dlref.Evaluator(P)
        db = ev.run()
    except OutOfDomain as ex:
        raise Discard("ood:" + str(ex).split(":")[0])
    res = runner.run_program(case["program"], case["facts"])
    runner.classify_failure(res, "run", pub)
    msgs = []
    deep = False
    for n in case["rec"]:
        lines = res.outputs.get(n + "_d")
        plain = res.outputs.get(n)
        if lines is None or plain is None:
            msgs.append("%s: no output" % n)
            continue
        got = {}
        for ln in lines:
            cols = [int(x) for x in ln.split("\t")]
            t, it = tuple(cols[:-1]), cols[-1]
            if t in got:
                msgs.append("%s%r recorded in two iterations (%d and %d)" % (n, t, got[t], it))
            got[t] = it
        want = {t: ev.stage[(n, t)] for t in db[n]}
        if set(got) != set(want):
            msgs.append("%s: missing %r spurious %r" % (n, sorted(set(want) - set(got))[:5], sorted(set(got) - set(want))[:5]))
        if {tuple(int(x) for x in ln.split("\t")) for ln in plain} != set(want):
            msgs.append("%s: the relation itself differs from the least fixpoint" % n)
        wrong = [(t, got[t], want[t]) for t in sorted(got) if t in want and got[t] != want[t]]
        if wrong:
            msgs.append("%s: found in another iteration than the naive stage (tuple, iteration, naive stage): %r" % (n, wrong[:6]))
        if want and max(want.values()) >= 3:
            deep = True
    if msgs:
        raise Violation("semi-naive evaluation is not stage-exact:\n" + "\n".join(msgs[:8]), {"case": pub})
    if st is not None:
        multi = any(sum(1 for l in r.body if isinstance(l, dlgen.Atom) and l.rel in g) >= 2 for g in P.groups for r in P.rules if r.head.rel in g) \
            or any(len(g) >= 2 for g in P.groups)
        if deep and multi:
            st.nontrivial.add(common.h(case["program"]))
            st.classes["deep_and_multi_recursive_atoms"] += 1
            st.sample({"program": case["program"], "max_stage": max(ev.stage.values())})
        elif deep:
            st.classes["deep_linear_only"] += 1
        else:
            st.classes["shallow"] += 1


class Check(PCheck):
    def worker(self, shard, seed, n, params):
        from vlib.common import Stats
        from vlib.hyp import hyp_run
        st = Stats()

        def prop(ch):
            case = self.gen(ch)
            st.evals += 1
            self.judge(case, st)
        hyp_run(prop, seed, n, st)
        return st


CHECK = Check(PID, RULE, gen, judge, quick=1500, thorough=40000, floor=80,
              assumptions=["interpreter back end", "debug_delta's <iteration> column is the loop counter at first insertion (0 = non-recursive part)",
                           "the naive stage is computed by the reference evaluator"])
main, replay_file = CHECK.main, CHECK.replay_file
