"""C26 -- deletable B-trees behave as sorted sets (engine H: sequential stateful model test + cooperative scheduler)."""
from vlib.hcheck import HCheck

NEEDS_SOUFFLE = False
PID = "C26"
RULE = ("(a) seq runs: sequential histories on the real souffle::btree_delete_set (90%) / btree_delete_multiset (10%, insert/query/"
        "clear only: its erase cannot be instantiated) over keys of 1-3 int32, maxKeys 3, 4, 8 and default, linear/binary search: "
        "a generated pre-fill (0 to 6 x maxKeys keys; generated, ascending or descending order) and 8-60 operations from insert, "
        "erase(key), erase(iterator&) at find(key) / at lower_bound(key), find, contains, lower_bound, upper_bound, get_count, "
        "clear -- 75% of the non-insert keys aim at keys inserted before -- over dense domains of ~1-8 x maxKeys keys (or sparse "
        "32-bit values incl. INT32_MIN/MAX), with a reused operation_hints object (cleared after every erase/clear) or without; a "
        "third of the set histories end with a drain that erases the whole content ascending / descending / shuffled and inserts "
        "again. After EVERY operation: its return value (insert bool, erase count, iterator target incl. the successor left in the "
        "iterator by erase(iterator&)), size, empty, the full iteration and the tree's check() are compared with a std::multiset "
        "model; at the end the full C25 oracle (bounds with/without hints on members/neighbours/extremes, chunks). "
        "(b) conc runs: the C25 concurrent-insertion cases on the deletable trees under the cooperative scheduler, 60% of the set "
        "cases with mixed phases (concurrent inserts -> 1-24 quiescent erases -> concurrent inserts; oracle after every phase and "
        "check() after every erase); dfs runs as in C25. Non-trivial: (a) the history contains an erase of a key stored in an inner "
        "node, an erase that underflows a node (merge, borrow from a sibling or root shrink) and a successful insert after an "
        "erase; (b) at least one insert restarted or waited for a lock. Distinct by hash of the case text.")


def quick(seed):
    runs = [("seq%d" % i, ["--mode", "seq", "--seed", str(seed * 64 + i + 1), "--cases", "5000"]) for i in range(7)]
    runs[1:1] = [("conc%d" % i, ["--mode", "conc", "--seed", str(seed * 64 + 32 + i + 1), "--cases", "2500"]) for i in range(5)]
    runs += [("dfs_dset_p3_2x1_b2", ["--mode", "dfs", "--prefill", "3", "--nops", "1", "--bound", "2"]),
             ("dfs_dset_p5_2x2_b1", ["--mode", "dfs", "--prefill", "5", "--nops", "2", "--bound", "1", "--keys", "25,35,55"])]
    return runs


def thorough(seed):
    runs = [("seq%d" % i, ["--mode", "seq", "--seed", str(seed * 64 + i + 1), "--cases", "400000", "--size", "60"]) for i in range(7)]
    runs[1:1] = [("conc%d" % i, ["--mode", "conc", "--seed", str(seed * 64 + 32 + i + 1), "--cases", "120000", "--size", "60"]) for i in range(5)]
    runs += [("dfs_dset_p3_2x1_b3", ["--mode", "dfs", "--prefill", "3", "--nops", "1", "--bound", "3", "--max", "4000000"]),
             ("dfs_dset_p5_2x1_b3", ["--mode", "dfs", "--prefill", "5", "--nops", "1", "--bound", "3", "--max", "4000000"]),
             ("dfs_dset_p5_2x2_b2", ["--mode", "dfs", "--prefill", "5", "--nops", "2", "--bound", "2", "--max", "4000000"]),
             ("dfs_dmulti_p3_2x1_b3", ["--mode", "dfs", "--structure", "3", "--prefill", "3", "--nops", "1", "--bound", "3", "--max", "4000000"])]
    return runs


def extra(st):
    ex = {k: v for k, v in st.extra.items() if k.startswith("dfs")}
    exhaustive = all(v == 1 for k, v in ex.items() if k.endswith(":exhaustive"))
    ops = sum(v for k, v in st.extra.items() if k.endswith(":seq_operations"))
    return {"exhaustive_subspaces": ex, "exhaustive": False, "sequential_operations_checked": ops,
            "explanation_exhaustive": "each dfs_* run enumerates every key assignment of its configuration x every schedule up to its preemption "
            "bound (per-run exhaustive flags all set: %s); the seq/conc runs are a search" % exhaustive,
            "schedule_control": "cooperative scheduler for the concurrent part; sequentially consistent interleavings at hook granularity"}


CHECK = HCheck(PID, "c26_btree_delete", RULE, quick, thorough, floor=3000, extra_fn=extra,
               assumptions=["erase is only ever called while no other thread uses the tree (BTreeDelete.h takes no lock in erase); concurrent phases contain insertions only",
                            "operation_hints are dropped (clear()) after every erase / clear, as the header documents for operations that delete nodes",
                            "btree_delete_multiset::erase / get_count do not compile (the iterator befriends only the isSet=true instantiation), so "
                            "erase histories exist for btree_delete_set only",
                            "interleavings of the concurrent part are sequentially consistent at the granularity of the SOUFFLE_VERIF hook points"])
main, replay_file = CHECK.main, CHECK.replay_file
