"""C28 -- equivalence-relation storage is the closure of the inserted pairs (engine H, cooperative scheduler)."""
from vlib.hcheck import HCheck

NEEDS_SOUFFLE = False
PID = "C28"
RULE = ("Histories of 3-12 steps over two EquivalenceRelation<Tuple<RamDomain,2>> objects A and B: sequential insert(a,b) into A / B, "
        "concurrent phases (1-8 threads inserting pair lists into A under the cooperative scheduler: hook points in the union-find's "
        "atomic accesses, PiggyList append/createNode, every lock operation of the sparse->dense B-tree), A.insertAll(B), "
        "A.extendAndInsert(B), clear, and quiescent reads of 7 kinds (everything / size+empty / begin..end / contains / "
        "getBoundaries<0,1,2>+lower_bound+anteriorIt / partition(n) / closure) which build the iteration cache that later writes "
        "must invalidate. Elements: dense pools 0..k, -3..k, or extremes {2^31-1, -2^31+1, 0, -1, -2^31, 65535, 65536...}; the value "
        "-2^31 may be inserted but is never a lookup operand of getBoundaries/lower_bound (known finding F4, probed separately). "
        "~20% of the cases test PiggyList / RandomInsertPiggyList alone (block bits 1-3, 2-6 threads appending / createNode / "
        "insertAt on distinct indices). Oracle = naive partition model, after every step: contains(a,b) <=> a~b and both mentioned; "
        "size = sum |class|^2; full / per-element / per-pair / closure iterations and partition(n) ranges list exactly the model's "
        "pairs once each; sequential insert returns true iff the pair was new; insertAll = closure of the union, argument unchanged; "
        "extendAndInsert: this += every class of other that shares an element with this, other += this's prior content; reads after "
        "writes see the writes; PiggyList: size, unique indices, get(index) = stored element, iteration in index order. "
        "Non-trivial = (cache-building read, partition-changing write, read) or concurrent inserts of different threads that "
        "interleave and concern one class; for PiggyList cases: interleaved appends. Distinct by hash of (history, schedules).")

F4 = ("lower_bound treats the element value -2147483648 as 'unbound': a lookup bound to it returns all pairs / misses the contained pair "
      "(known finding F4, shared with C08); the value is excluded from lookup operands in the campaign")


def quick(seed):
    runs = [("rnd%d" % i, ["--seed", str(seed * 64 + i + 1), "--cases", "2500"]) for i in range(12)]
    runs += [("probe", ["--mode", "probe"]),
             ("dfs_eq_2x1_b1", ["--mode", "dfs", "--vals", "0,1,2,3", "--setup", "0,1", "--threads", "2", "--bound", "1"]),
             ("dfs_piggy_3x2_b3", ["--mode", "dfs", "--piggy", "1", "--bits", "0", "--threads", "3", "--ops", "2", "--bound", "3"])]
    return runs


def thorough(seed):
    runs = [("rnd%d" % i, ["--seed", str(seed * 64 + i + 1), "--cases", "60000", "--size", "60"]) for i in range(12)]
    runs += [("probe", ["--mode", "probe"]),
             ("dfs_eq_2x1_b2", ["--mode", "dfs", "--vals", "0,1,2,3", "--setup", "0,1", "--threads", "2", "--bound", "2", "--max", "6000000"]),
             ("dfs_eq2_2x1_b2", ["--mode", "dfs", "--vals", "0,1,2,3", "--setup", "0,1,2,3", "--threads", "2", "--bound", "2", "--max", "6000000"]),
             ("dfs_eq_3x1_b1", ["--mode", "dfs", "--vals", "0,1,2", "--setup", "0,1", "--threads", "3", "--bound", "1", "--max", "6000000"]),
             ("dfs_piggy_3x2_b4", ["--mode", "dfs", "--piggy", "1", "--bits", "0", "--threads", "3", "--ops", "2", "--bound", "4", "--max", "6000000"]),
             ("dfs_piggy_2x3_b9", ["--mode", "dfs", "--piggy", "1", "--bits", "1", "--threads", "2", "--ops", "3", "--bound", "9", "--max", "6000000"])]
    return runs


_state = {}


def extra(st):
    ex = {k: v for k, v in st.extra.items() if k.startswith("dfs")}
    f4 = any(v for k, v in st.extra.items() if k.endswith(":known_F4"))
    _state["f4"] = f4
    return {"exhaustive_subspaces": ex, "exhaustive": False,
            "known_findings_excluded": {"F4_lookup_operand_-2147483648": "excluded by construction", "known_F4_reproduced_by_probe": int(f4)},
            "build_flags": "-fno-sanitize=enum (EquivalenceRelation::iterator copies the uninitialised `ityp` of end iterators)",
            "schedule_control": "cooperative scheduler; sequentially consistent interleavings at hook granularity"}


CHECK = HCheck(PID, "c28_eqrel", RULE, quick, thorough, floor=200, extra_fn=extra,
               assumptions=["interleavings are sequentially consistent at the granularity of the SOUFFLE_VERIF hook points (no weak-memory reordering)",
                            "concurrent inserts run only concurrently with other inserts; every read runs in a quiescent phase (the way souffle uses the structure)",
                            "the return value of insert is judged only for sequential inserts",
                            "7 of 8 cases re-use two static relations whose element counters are rewound between cases (blocks stay allocated); 1 of 8 uses fresh objects"])


def main(tier, seed):
    _state.clear()
    rc = CHECK.main(tier, seed)
    if _state.get("f4"):
        print("KNOWN-FINDING: property=%s %s" % (PID, F4))
    return rc


replay_file = CHECK.replay_file
