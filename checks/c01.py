"""C01 -- evaluation computes the stratified least model (interpreter vs the naive reference evaluator dlref)."""
import time, json
from vlib import dlgen, dlref, runner, common
from vlib.common import Violation, Discard, Inconclusive, Stats
from vlib.hyp import Chooser, hyp_run
from vlib.refops import OutOfDomain

PID = "C01"
RULE = ("dlgen programs (typed, stratified, grounded by construction; EDB inline and in .facts files; negation, "
        "constraints, functors, records, ADTs (construction and destructuring), disjunctions, multi-head clauses, range generators, casts, aggregates, recursion) run by the interpreter and compared relation by relation "
        "(both directions, duplicates counted) with the naive reference evaluator dlref. Non-trivial = some rule fires AND "
        "(a recursive stratum needs >=2 productive rounds OR a negated atom filters a tuple OR aggregates see both an empty "
        "and a non-empty group OR a record destructuring both matches and fails); distinct by hash of the program text.")


def feat_for(tier):
    return dlgen.Feat(adts=True, ranges=True, disjunctions=True, multihead=True)


def judge(P, st=None, args=()):
    text, facts = dlgen.to_souffle(P)
    case = {"program": text, "facts": facts, "args": list(args)}
    try:
        db, rs = dlref.evaluate(P)
    except OutOfDomain as e:
        raise Discard("ood:" + str(e).split(":")[0])
    res = runner.run_program(text, facts, args=args)
    if res.rr.timeout:
        raise Inconclusive("timeout")
    if res.rr.rc != 0:
        raise Violation("interpreter failed on a well-formed program: rc=%s\n%s" % (res.rr.rc, res.rr.err[-1200:]), {"case": case})
    try:
        outs = runner.typed_outputs(P, res.outputs)
    except ValueError as e:
        raise Violation("unparsable output: %s" % e, {"case": case})
    msgs = []
    for n, got in outs.items():
        if got is None:
            msgs.append("%s: no output file" % n)
            continue
        rows, nl = got
        miss, extra = runner.diff_sets(db[n], rows)
        if miss:
            msgs.append("%s: missing %r" % (n, miss))
        if extra:
            msgs.append("%s: spurious %r" % (n, extra))
        if nl != len(rows):
            msgs.append("%s: %d duplicate line(s)" % (n, nl - len(rows)))
    if msgs:
        raise Violation("output differs from the stratified least model:\n" + "\n".join(msgs), {"case": case})
    if st is not None:
        labels = []
        if rs["rule_fired"]:
            if any(r >= 2 for gi, r in rs["rounds"].items() if P.rels[P.groups[gi][0]].recursive):
                labels.append("recursion>=2rounds")
            if rs["neg_filtered"]:
                labels.append("negation_filters")
            if rs["agg_empty"] and rs["agg_nonempty"]:
                labels.append("agg_empty+nonempty")
            if rs["destruct_match"] and rs["destruct_fail"]:
                labels.append("record_match+fail")
        for l in labels:
            st.classes[l] += 1
        if labels:
            st.nontrivial.add(common.h(text))
            st.sample({"program": text, "facts": facts, "labels": labels, "tuples": {n: len(db[n]) for n in outs}})
        else:
            st.classes["trivial"] += 1
        if any(isinstance(t, dlgen.RecT) for r in P.rels.values() for t in r.types):
            st.classes["uses_records"] += 1
        if "F25_excluded" in P.tags:
            st.known["F25:aggregate with injected variable in a recursive rule"] += 1
    return case


F25_PROGRAM = """.decl e0(a0:number, a1:number)
e0(0, 3). e0(0, -2). e0(4, 0).
.decl r2(a0:number)
r2(-3). r2(4). r2(0).
.decl r3(a0:number)
r3(0). r3(1). r3(2).
.decl r4(a0:number, a1:unsigned)
.output r4
r4(0, 1).
r4(v47, v42) :- r4(v41, v42), v47 = count : { r3(v43), r2(v46), !e0(v46, v41) }.
"""


def probe_known(st):
    for f in common.findings_for(PID):
        if f["key"] == "F25":
            res = runner.run_program(F25_PROGRAM, {})
            if res.rr.rc != 0 or sorted(res.outputs.get("r4") or []) != sorted(["0\t1", "6\t1", "9\t1"]):
                st.known_lines.append(f["what"])


def worker(shard, seed, n, params):
    st = Stats()
    feat = feat_for(params.get("tier"))

    def prop(ch):
        P = dlgen.generate(ch, feat)
        st.evals += 1
        judge(P, st)
    hyp_run(prop, seed, n, st)
    return st


def replay_case(case):
    P = dlgen.generate(Chooser(trace=case["trace"]), feat_for(None))
    judge(P)


def replay_file(path):
    case = json.load(open(path))
    try:
        replay_case(case)
    except Violation as v:
        print("VIOLATION property=%s replay=%s" % (PID, path))
        print(v.msg)
        return 1
    except (Discard, Inconclusive) as e:
        print("replay not conclusive: %s" % e)
        return 0
    print("replay passes")
    return 0


def main(tier, seed):
    t0 = time.time()
    total = 3000 if tier == "quick" else 60000
    st = common.run_sharded(worker, seed, total, {"tier": tier})
    probe_known(st)
    return common.finish(PID, tier, seed, "exploration", st, RULE, t0, replay_fn=replay_case,
                         assumptions=["dlref implements the documented semantics", "cases outside the defined value domain are discarded and counted",
                                      "aggregate bodies use named variables only (F7)"],
                         nontrivial_floor=50)
