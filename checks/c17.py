"""C17 -- writing relations and reading them back with the matching options reproduces the tuples (all formats, all types)."""
import os, json
from vlib import common, runner
from vlib.common import Violation, Discard, Inconclusive, Scratch, souffle, write_files, read_outputs
from vlib.refops import f32, I32_MIN, I32_MAX, U32_MAX
from vlib.pcheck import PCheck

PID = "C17"
RULE = ("A generated relation signature (1-4 columns over number, unsigned, float, symbol, a record type nested up to 2 levels incl. "
        "nil and a recursive list type, an ADT with enum, single- and multi-argument branches), a generated tuple set over boundary "
        "pools (INT_MIN/MAX, UINT_MAX, floats needing 9 significant digits, max finite, tiny normal, symbols over an alphabet chosen "
        "per format: blanks, quotes, brackets, commas, semicolons, backslashes, '$', '|', empty string, UTF-8 bytes) and an IO "
        "configuration: tab text, custom single- and multi-character delimiter, rfc4180=true, headers=true, compress=true (gzip), "
        "IO=jsonfile (list and object format), IO=sqlite; 12% of the non-SQLite cases (25% more of the gzip ones) carry 2500-9000 further rows "
        "expanded from one generated seed (text far beyond the 64 KiB stream buffers); 60% of the SQLite cases write a second relation "
        "sharing symbols with the first into the same database file (either declaration order). One souffle program writes the relation, a second program with FRESH symbol "
        "and record tables reads the file back with the matching options and writes it in the default format; the result must be "
        "exactly the original tuple set (values compared typed: floats by float32 value, records/ADTs structurally). Symbols are "
        "restricted to what the format's documented grammar can represent (plain text: no delimiter / line break, and inside records "
        "no comma or closing bracket; RFC 4180, JSON, SQLite: any string without line breaks), minus the recorded findings (F3a quote "
        "under rfc4180, F3b backslash inside nested values under rfc4180, F3d ADTs in JSON, F3e floats in SQLite), which are excluded "
        "by construction and re-probed. Non-trivial = the tuple set holds >= 1 boundary value for its format (delimiter-like or quote "
        "character, nil inside a nested record, unsigned > 2^31, float needing 9 digits, empty symbol, header line, gzip); distinct "
        "by hash of (signature, tuples, options).")

NUMS = [0, 1, -1, 7, 42, I32_MAX, I32_MIN, I32_MIN + 1, 65536, -65537]
UNS = [0, 1, 7, U32_MAX, 1 << 31, (1 << 31) + 5, 4000000000, 65536]
FLTS = [0.0, 1.0, -1.0, 1.5, 0.1, -0.3, 1 / 3.0, 16777217.0, 3.4028234e38, -3.4028234e38, 123456.789, 0.000001, 0.100000024, 2147483648.0]
SYM_PLAIN = ["a", "b c", "x_y", "A", "0", "-1", "1.5", "nil", "é", "a.b", "longer symbol with blanks", "q'uote", "semi;colon", "pi|pe", "do$llar",
             "co:lon"]
SYM_EXTRA = {"quote": ['q"uote', '"', '""', 'a"b"c'], "comma": ["c,d", ",", "a, b"], "bracket": ["a]b", "]", "a)b", "[x]", "(y)"],
             "backslash": ["b\\s", "\\", "a\\nb"], "empty": [""], "tab": ["t\tb"]}


def sym_pool(fmt, nested):
    """symbols the format can represent (by its documented grammar), minus recorded findings"""
    pool = list(SYM_PLAIN)
    delim = fmt.get("delimiter", "\t")
    if fmt["io"] in ("jsonfile", "sqlite"):
        for k in ("quote", "comma", "bracket", "backslash", "empty", "tab"):
            pool += SYM_EXTRA[k]
    elif fmt.get("rfc4180"):
        pool += SYM_EXTRA["comma"] + SYM_EXTRA["empty"] + SYM_EXTRA["tab"]
        if not nested:
            pool += SYM_EXTRA["bracket"] + SYM_EXTRA["backslash"]   # F3b: a backslash inside a nested value is dropped on read
        # F3a: '"' under rfc4180 does not round-trip -> excluded
    else:
        # plain text: the reader tracks [ ] ( ) in every field (so that records may contain the delimiter), hence brackets are
        # structural characters of the format and not representable inside symbols
        if not nested:
            pool += SYM_EXTRA["backslash"] + SYM_EXTRA["quote"][:1] + SYM_EXTRA["comma"]
            pool += SYM_EXTRA["empty"]
        else:
            pool += SYM_EXTRA["backslash"]
    out = []
    for s in pool:
        if fmt["io"] == "file" and not fmt.get("rfc4180") and delim and delim in s:
            continue
        if nested and fmt["io"] == "file" and not fmt.get("rfc4180") and any(c in s for c in ",])"):
            continue
        if nested and (s.startswith(" ") or "\t" in s):
            continue
        if fmt["io"] == "file" and not fmt.get("rfc4180") and any(c in s for c in "[]()"):
            continue
        out.append(s)
    return out


TYPEDEFS = ".type Rec = [a:number, s:symbol]\n.type Nest = [r:Rec, u:unsigned]\n.type List = [h:number, t:List]\n" \
           ".type Adt = En {} | Num {n:number} | Pair {s:symbol, f:float} | Wrap {a:Adt}\n"


def gen_val(ch, ty, fmt, nested=False, depth=0):
    if ty == "number":
        return ch.choice(NUMS)
    if ty == "unsigned":
        return ch.choice(UNS)
    if ty == "float":
        return f32(ch.choice(FLTS))
    if ty == "symbol":
        return ch.choice(sym_pool(fmt, nested))
    if ty == "Rec":
        return None if ch.bool(0.15) else ("Rec", gen_val(ch, "number", fmt, True), gen_val(ch, "symbol", fmt, True))
    if ty == "Nest":
        return None if ch.bool(0.15) else ("Nest", gen_val(ch, "Rec", fmt, True), gen_val(ch, "unsigned", fmt, True))
    if ty == "List":
        if depth >= 3 or ch.bool(0.3):
            return None
        return ("List", gen_val(ch, "number", fmt, True), gen_val(ch, "List", fmt, True, depth + 1))
    if ty == "Adt":
        k = ch.int(0, 3 if depth < 2 else 2)
        if k == 0:
            return ("$En",)
        if k == 1:
            return ("$Num", gen_val(ch, "number", fmt, True))
        if k == 2:
            return ("$Pair", gen_val(ch, "symbol", fmt, True), gen_val(ch, "float", fmt, True))
        return ("$Wrap", gen_val(ch, "Adt", fmt, True, depth + 1))
    raise KeyError(ty)


def lit(v, ty):
    """program-text literal"""
    if ty == "symbol":
        return '"' + v.replace("\\", "\\\\").replace('"', '\\"').replace("\t", "\\t") + '"'
    if ty == "float":
        s = repr(float(v))
        if "e" in s:
            s = "%.12f" % v if abs(v) < 1 else "%.1f" % v
        return s
    if ty in ("number", "unsigned"):
        return str(v)
    if v is None:
        return "nil"
    if ty == "Rec":
        return "[%s, %s]" % (lit(v[1], "number"), lit(v[2], "symbol"))
    if ty == "Nest":
        return "[%s, %s]" % (lit(v[1], "Rec"), lit(v[2], "unsigned"))
    if ty == "List":
        return "[%s, %s]" % (lit(v[1], "number"), lit(v[2], "List"))
    if ty == "Adt":
        if v[0] == "$En":
            return "$En()"
        if v[0] == "$Num":
            return "$Num(%s)" % lit(v[1], "number")
        if v[0] == "$Pair":
            return "$Pair(%s, %s)" % (lit(v[1], "symbol"), lit(v[2], "float"))
        return "$Wrap(%s)" % lit(v[1], "Adt")
    raise KeyError(ty)


FORMATS = [
    {"io": "file"},
    {"io": "file", "delimiter": ","}, {"io": "file", "delimiter": ";"}, {"io": "file", "delimiter": "|"}, {"io": "file", "delimiter": " "},
    {"io": "file", "delimiter": "::"}, {"io": "file", "delimiter": ":"},
    {"io": "file", "rfc4180": True, "delimiter": ","}, {"io": "file", "rfc4180": True, "delimiter": ";"},
    {"io": "file", "headers": True}, {"io": "file", "headers": True, "delimiter": ","}, {"io": "file", "rfc4180": True, "delimiter": ",", "headers": True},
    {"io": "file", "compress": True}, {"io": "file", "compress": True, "rfc4180": True, "delimiter": ","},
    {"io": "jsonfile"}, {"io": "jsonfile", "format": "object"},
    {"io": "sqlite"},
]


def gen(ch):
    fmt = dict(ch.choice(FORMATS))
    ncol = ch.int(1, 4)
    allowed = ["number", "unsigned", "float", "symbol", "Rec", "Nest", "List", "Adt"]
    if fmt["io"] == "jsonfile":
        allowed.remove("Adt")            # F3d: the JSON writers abort on ADT columns
    if fmt["io"] == "sqlite":
        allowed = ["number", "unsigned", "symbol"]   # F3e: floats do not survive; records/ADTs are stored as opaque ids
    if fmt["io"] == "file" and not fmt.get("rfc4180") and fmt.get("delimiter") in (",", " "):
        # the printed form of records / ADTs contains ", ": such a delimiter cannot carry nested values in plain text
        allowed = [t for t in allowed if t in ("number", "unsigned", "float", "symbol")]
    bulk = None
    if fmt["io"] != "sqlite" and ch.bool(0.12) or fmt.get("compress") and ch.bool(0.25):
        # a relation whose text form is far larger than any stream buffer (64 KiB): 2500-9000 further rows expanded from one
        # generated seed over the scalar types (numbers over the whole range, 9-digit floats, symbols of varying length)
        allowed = [t for t in allowed if t in ("number", "unsigned", "float", "symbol")]
        bulk = {"seed": ch.int(0, (1 << 30) - 1), "n": ch.int(2500, 9000)}
    types = [ch.choice(allowed) for _ in range(ncol)]
    rows = []
    for _ in range(ch.int(1, 8)):
        rows.append([gen_val(ch, t, fmt) for t in types])
    case = {"fmt": fmt, "types": types, "rows": rows}
    if bulk:
        case["bulk"] = bulk
    if fmt["io"] == "sqlite" and ch.bool(0.6):
        # a second relation in the same database file that shares symbols with the first
        syms = sorted({v for r in rows for v, t in zip(r, types) if t == "symbol"})
        rows2 = []
        for _ in range(ch.int(1, 6)):
            rows2.append([ch.choice(syms) if syms and ch.bool(0.7) else gen_val(ch, "symbol", fmt), ch.choice(NUMS),
                          ch.choice(syms) if syms and ch.bool(0.5) else gen_val(ch, "symbol", fmt)])
        case["second"] = rows2
        case["second_first"] = ch.bool(0.5)
    return case


def bulk_rows(case):
    import random
    b = case.get("bulk")
    if not b:
        return []
    rnd = random.Random(b["seed"])
    out = []
    for i in range(b["n"]):
        row = []
        for t in case["types"]:
            if t == "number":
                row.append(rnd.choice([rnd.randint(I32_MIN, I32_MAX), rnd.randint(-99, 99), i]))
            elif t == "unsigned":
                row.append(rnd.choice([rnd.randint(0, U32_MAX), rnd.randint(0, 99), i]))
            elif t == "float":
                row.append(f32(rnd.choice([rnd.randint(-10 ** 6, 10 ** 6) / 64.0, i * 0.5, rnd.random()])))
            else:
                row.append("sym_%d%s" % (rnd.randint(0, 10 ** rnd.randint(1, 8)), "x" * rnd.randint(0, 5)))
        out.append(row)
    return out


def io_params(fmt, fname):
    ps = []
    if fmt["io"] != "file":
        ps.append("IO=%s" % fmt["io"])
    if fmt["io"] == "sqlite":
        ps.append('dbname="%s"' % fname)
    else:
        ps.append('filename="%s"' % fname)
    if "delimiter" in fmt:
        ps.append('delimiter="%s"' % fmt["delimiter"])
    for k in ("rfc4180", "headers", "compress"):
        if fmt.get(k):
            ps.append("%s=true" % k)
    if fmt.get("format"):
        ps.append("format=%s" % fmt["format"])
    return ", ".join(ps)


def fmt_out(v, ty):
    """how the default writer prints a value (used to compare typed values, not text)"""
    return v


def parse_default(text, ty):
    """parse one field written by the default (tab) writer into the generator's value representation"""
    if ty == "number" or ty == "unsigned":
        return int(text)
    if ty == "float":
        return f32(float(text))
    if ty == "symbol":
        return text
    val, rest = parse_nested(text, ty)
    if rest.strip():
        raise ValueError("trailing text %r" % rest)
    return val


def parse_nested(s, ty):
    s = s.lstrip(" ")
    if ty in ("number", "unsigned", "float"):
        j = 0
        while j < len(s) and s[j] not in ",])":
            j += 1
        return parse_default(s[:j].strip(), ty), s[j:]
    if ty == "symbol":
        j = 0
        while j < len(s) and s[j] not in ",])":
            j += 1
        return s[:j], s[j:]
    if ty in ("Rec", "Nest", "List"):
        if s.startswith("nil"):
            return None, s[3:]
        if not s.startswith("["):
            raise ValueError("record expected at %r" % s[:20])
        fields = {"Rec": ["number", "symbol"], "Nest": ["Rec", "unsigned"], "List": ["number", "List"]}[ty]
        s = s[1:]
        vals = []
        for i, ft in enumerate(fields):
            v, s = parse_nested(s, ft)
            vals.append(v)
            s = s.lstrip(" ")
            if i + 1 < len(fields):
                if not s.startswith(","):
                    raise ValueError("comma expected at %r" % s[:20])
                s = s[1:]
        if not s.startswith("]"):
            raise ValueError("] expected at %r" % s[:20])
        return (ty,) + tuple(vals), s[1:]
    if ty == "Adt":
        for name, fields in (("$En", []), ("$Num", ["number"]), ("$Pair", ["symbol", "float"]), ("$Wrap", ["Adt"])):
            if s.startswith(name):
                s2 = s[len(name):]
                if not fields:
                    if s2.startswith("()"):
                        s2 = s2[2:]
                    return (name,), s2
                if not s2.startswith("("):
                    continue
                s2 = s2[1:]
                vals = []
                for i, ft in enumerate(fields):
                    v, s2 = parse_nested(s2, ft)
                    vals.append(v)
                    s2 = s2.lstrip(" ")
                    if i + 1 < len(fields):
                        if not s2.startswith(","):
                            raise ValueError("comma expected")
                        s2 = s2[1:]
                if not s2.startswith(")"):
                    raise ValueError(") expected at %r" % s2[:20])
                return (name,) + tuple(vals), s2[1:]
        raise ValueError("ADT branch expected at %r" % s[:20])
    raise KeyError(ty)


def has_nested_sym_issue(types, rows):
    """default-format comparison is only unambiguous if nested symbols contain none of , ] ) -- guaranteed by the pools except for
    json/sqlite/rfc formats, where the second program re-writes in the default format"""
    def walk(v):
        if isinstance(v, tuple):
            return any(walk(x) for x in v[1:])
        return isinstance(v, str) and (any(c in v for c in ",])\t") or v.startswith(" "))
    return any(isinstance(v, tuple) and walk(v) for r in rows for v in r)


def judge(case, st=None):
    fmt, types, rows = case["fmt"], case["types"], [list(r) for r in case["rows"]]
    rows = [[tuple_fix(v) for v in r] for r in rows] + bulk_rows(case)
    rows2 = [list(r) for r in case.get("second") or []]
    if has_nested_sym_issue(types, rows):
        raise Discard("nested_symbol_not_printable_in_default_format")
    if any("\t" in v for r in rows for v, t in zip(r, types) if t == "symbol") or any("\t" in r[0] + r[2] for r in rows2):
        raise Discard("tab_in_top_level_symbol")    # the read-back program writes tab-separated text
    decl = ".decl r(%s)\n" % ", ".join("c%d:%s" % (i, t) for i, t in enumerate(types))
    fname = {"file": "data.csv" + (".gz" if fmt.get("compress") else ""), "jsonfile": "data.json", "sqlite": "data.db"}[fmt["io"]]
    writer = TYPEDEFS + decl + "".join("r(%s).\n" % ", ".join(lit(v, t) for v, t in zip(r, types)) for r in rows) + \
        ".output r(%s)\n" % io_params(fmt, fname)
    # a few unrelated symbols/records first, so that the reading program's tables assign different ids
    reader = TYPEDEFS + '.decl pad(s:symbol, l:List)\npad("zzz", [9, [8, nil]]).\npad("yyy", nil).\n' + decl + \
        ".input r(%s)\n.output r\n" % io_params(fmt, fname)
    if rows2:
        # (souffle writes the relations of a program in declaration order; both orders are generated)
        name2 = "a2" if case.get("second_first") else "s2"
        decl2 = ".decl %s(a:symbol, n:number, b:symbol)\n" % name2
        w2 = decl2 + "".join("%s(%s, %d, %s).\n" % (name2, lit(r[0], "symbol"), r[1], lit(r[2], "symbol")) for r in rows2) + \
            ".output %s(%s)\n" % (name2, io_params(fmt, fname))
        writer = (TYPEDEFS + w2 + writer[len(TYPEDEFS):]) if case.get("second_first") else writer + w2
        reader += decl2 + ".input %s(%s)\n.output %s\n" % (name2, io_params(fmt, fname), name2)
    with Scratch("c17") as d:
        write_files(d, {"w.dl": writer, "r.dl": reader})
        os.makedirs(os.path.join(d, "out"), exist_ok=True)
        rw = souffle(["-D", ".", "w.dl"], cwd=d, timeout=30)
        if rw.timeout:
            raise Inconclusive("timeout:write")
        if rw.rc != 0:
            raise Violation("writing the relation failed: rc=%s\n%s" % (rw.rc, rw.err[-1200:]), {"case": case})
        rr = souffle(["-F", ".", "-D", "out", "r.dl"], cwd=d, timeout=30)
        if rr.timeout:
            raise Inconclusive("timeout:read")
        if rr.rc != 0:
            try:
                raw = open(os.path.join(d, fname), "rb").read()[:400]
            except OSError:
                raw = b"<no file>"
            raise Violation("reading back what souffle wrote failed: rc=%s\n%s\nfile: %r" % (rr.rc, rr.err[-1200:], raw), {"case": case})
        outs = read_outputs(os.path.join(d, "out"))
        got_lines = outs.get("r")
    if rows2:
        got2 = {tuple(ln.split("\t")) for ln in (outs.get(name2) or [])}
        want2 = {(r[0], str(r[1]), r[2]) for r in rows2}
        if got2 != want2:
            raise Violation("round trip of the second relation (same %s file, shared symbols) changed it:\n lost %r\n invented %r" % (
                fmt["io"], sorted(want2 - got2)[:5], sorted(got2 - want2)[:5]), {"case": case})
    if got_lines is None:
        raise Violation("no output of the read-back program", {"case": case})
    want = {tuple(r) for r in rows}
    try:
        got = set()
        for ln in got_lines:
            cols = ln.split("\t")
            if len(cols) != len(types):
                raise ValueError("column count %r" % ln)
            got.add(tuple(parse_default(c, t) for c, t in zip(cols, types)))
    except ValueError as ex:
        raise Violation("read-back relation cannot be parsed (%s): %r" % (ex, got_lines[:5]), {"case": case})
    if got != want:
        raise Violation("round trip through %r changed the relation:\n lost %r\n invented %r" % (
            fmt, sorted(want - got, key=repr)[:5], sorted(got - want, key=repr)[:5]), {"case": case})
    if st is not None:
        labels = boundary_labels(fmt, types, rows)
        if case.get("bulk"):
            labels.add("bulk:text_larger_than_64KiB")
        if rows2 and {r[0] for r in rows2} | {r[2] for r in rows2} & {v for r in rows for v, t in zip(r, types) if t == "symbol"}:
            labels.add("sqlite:second_relation_sharing_symbols")
        st.classes["format:" + fmt_name(fmt)] += 1
        if labels:
            st.nontrivial.add(common.h(repr((fmt, types, rows))))
            for l in labels:
                st.classes[l] += 1
            if len(st.samples) < 4 and not any(s.get("format") == fmt_name(fmt) for s in st.samples):
                st.samples.append({"format": fmt_name(fmt), "writer_program": writer[len(TYPEDEFS):][:1500]})
        else:
            st.classes["trivial"] += 1


def tuple_fix(v):
    """JSON replay files turn tuples into lists"""
    if isinstance(v, list):
        return tuple(tuple_fix(x) for x in v)
    return v


def fmt_name(fmt):
    return fmt["io"] + "".join("+%s" % k for k in ("rfc4180", "headers", "compress", "format") if fmt.get(k)) + \
        ("+delim(%s)" % fmt["delimiter"] if "delimiter" in fmt else "")


def boundary_labels(fmt, types, rows):
    labels = set()

    def walk(v, nested):
        if isinstance(v, tuple):
            for x in v[1:]:
                walk(x, True)
            return
        if v is None and nested:
            labels.add("nil_inside_nested_value")
        if isinstance(v, str):
            if v == "":
                labels.add("empty_symbol")
            if any(c in v for c in '",;|:$\\[]()') or " " in v:
                labels.add("symbol_with_delimiter_like_or_quote_character")
        elif isinstance(v, float):
            if repr(v) != repr(float("%.6g" % v)):
                labels.add("float_needs_more_than_6_digits")
        elif isinstance(v, int) and v > I32_MAX:
            labels.add("unsigned_above_2^31")
        elif isinstance(v, int) and v in (I32_MIN, I32_MAX):
            labels.add("signed_extreme")
    for r in rows:
        for v in r:
            walk(v, False)
    if fmt.get("headers"):
        labels.add("header_line")
    if fmt.get("compress"):
        labels.add("gzip")
    return labels


PROBE_PROGS = {
 "F3a": ('.decl r(s:symbol)\nr("q\\"uote").\n.output r(rfc4180=true, delimiter=",", filename="d.csv")\n', '.decl r(s:symbol)\n.input r(rfc4180=true, delimiter=",", filename="d.csv")\n.output r\n', ['q"uote']),
 "F3b": ('.type Rec = [a:number, s:symbol]\n.decl r(x:Rec)\nr([1, "b\\\\in"]).\n.output r(rfc4180=true, delimiter=",", filename="d.csv")\n', '.type Rec = [a:number, s:symbol]\n.decl r(x:Rec)\n.input r(rfc4180=true, delimiter=",", filename="d.csv")\n.output r\n', ['[1, b\\in]']),
 "F3d": ('.type Adt = En {} | Num {n:number}\n.decl r(x:Adt)\nr($Num(1)).\n.output r(IO=jsonfile, filename="d.json")\n', None, None),
 "F3e": ('.decl r(f:float)\nr(1.25).\n.output r(IO=sqlite, dbname="d.db")\n', '.decl r(f:float)\n.input r(IO=sqlite, dbname="d.db")\n.output r\n', ['1.25']),
}


def probes(st, tier, seed):
    for f in common.findings_for(PID):
        pr = PROBE_PROGS.get(f["key"])
        if not pr:
            continue
        w, r, want = pr
        with Scratch("c17p") as d:
            write_files(d, {"w.dl": w})
            os.makedirs(os.path.join(d, "out"), exist_ok=True)
            rw = souffle(["-D", ".", "w.dl"], cwd=d, timeout=30)
            if r is None:
                if rw.rc != 0:
                    st.known_lines.append(f["what"])
                continue
            write_files(d, {"r.dl": r})
            rr = souffle(["-F", ".", "-D", "out", "r.dl"], cwd=d, timeout=30)
            got = read_outputs(os.path.join(d, "out")).get("r")
            if rw.rc != 0 or rr.rc != 0 or got != want:
                st.known_lines.append(f["what"])


CHECK = PCheck(PID, RULE, gen, judge, quick=1500, thorough=40000, floor=100, probes=probes,
               assumptions=["end-to-end through two souffle programs (interpreter): fresh symbol/record tables on the reading side",
                            "representability per format is taken from the reader's documented grammar; four recorded findings are excluded and re-probed"])
main, replay_file = CHECK.main, CHECK.replay_file
