"""C16 -- component instantiation is equivalent to textual expansion (own expansion model, written from the language manual)."""
from vlib import runner, common
from vlib.common import Violation, Discard, Inconclusive
from vlib.pcheck import PCheck

PID = "C16"
RULE = ("A generated component forest: 1-4 component templates with 0-1 type parameter, 1-3 relations each (some `overridable`), facts "
        "and rules over local relations, inherited relations, global EDB relations and relations of nested instances; single and "
        "multiple inheritance with type arguments passed on; `.override` of inherited relations (possibly declared two levels up); "
        "nested `.init` inside components; in 35% of the cases with inheritance a wrapper template declaring NESTED templates -- one "
        "shadowing the name of a top-level base template, one derived from a top-level template whose own base carries the shadowed "
        "name (base names resolve where a template is declared, `.init` names where the init stands); 1-3 top-level instantiations (several of one template, with `number` or a numeric subtype as "
        "type argument); outer rules reading `inst.rel` and `inst.sub.rel`. Oracle: the flat program produced by this check's own "
        "expansion model (inherit content bottom-up, drop inherited clauses of overridden relations, substitute type parameters, "
        "prefix names with the instantiation path, `a.b.r` spelt `a_b_r`) must give, for every output relation, exactly the tuples "
        "the component program writes to `a.b.r.csv`. Non-trivial = >= 2 instantiations of one template or a nested instantiation, "
        "and an override that removes a deriving clause or an inherited rule that fires; distinct by hash of the component program.")

TYPES = ["number", "Sub"]


class Comp:
    def __init__(self, name):
        self.name = name
        self.param = None          # 'T' or None
        self.bases = []            # [(comp, arg or None)]  arg: 'T' | 'number' | 'Sub'
        self.decls = []            # [(rel, [types], overridable)]
        self.overrides = []        # [rel]
        self.clauses = []          # [(head_rel, head_args, body)]  body: list of (kind, ref, args) / ('cmp', text)
        self.inits = []            # [(inst, comp, arg or None)]
        self.nested = []           # component templates declared inside this one (lexically scoped names)


def gen(ch):
    nglob = ch.int(1, 2)
    glob = []
    for i in range(nglob):
        ar = ch.int(1, 2)
        facts = sorted({tuple(ch.int(0, 5) for _ in range(ar)) for _ in range(ch.int(1, 6))})
        glob.append(("g%d" % i, ar, facts))
    comps = []
    ncomp = ch.int(2, 4)
    for ci in range(ncomp):
        c = Comp("K%d" % ci)
        if ch.bool(0.6):
            c.param = "T"
        ty = c.param or "number"
        # inheritance from earlier templates (no relation name clashes: relation names carry the component index)
        avail = [b for b in comps]
        if avail and ch.bool(0.8):
            nb = 2 if (len(avail) >= 2 and ch.bool(0.25)) else 1
            for b in ch.sample(avail, nb):
                arg = None
                if b.param:
                    arg = ty    # the own type is passed on: a variable may flow from a Sub attribute into a number one, not back
                c.bases.append((b, arg))
        # relations visible so far (inherited): name -> (arity, overridable)
        vis = {}

        def inherit(b):
            for bb, _ in b.bases:
                inherit(bb)
            for (r, tys, ov) in b.decls:
                vis[r] = (len(tys), ov)
            for (inst, sc, _) in b.inits:
                pass
        for b, _ in c.bases:
            inherit(b)
        nrel = ch.int(1, 3)
        for ri in range(nrel):
            ar = ch.int(1, 2)
            c.decls.append(("r%d%d" % (ci, ri), [ty for _ in range(ar)], ch.bool(0.5)))
        local = dict(vis)
        for (r, tys, ov) in c.decls:
            local[r] = (len(tys), ov)
        # nested instantiation of an earlier template
        subrels = {}
        if avail and ch.bool(0.35):
            sc = ch.choice(avail)
            arg = ty if sc.param else None
            inst = "n%d" % ci
            c.inits.append((inst, sc, arg))
            sv = {}

            def allrels(b):
                for bb, _ in b.bases:
                    allrels(bb)
                for (r, tys, ov) in b.decls:
                    sv[r] = len(tys)
            allrels(sc)
            for r, ar in sv.items():
                subrels[(inst, r)] = ar
        # overrides of inherited overridable relations
        for r, (ar, ov) in sorted(vis.items()):
            if ov and ch.bool(0.5):
                c.overrides.append(r)
        # clauses: for own relations, for overridden relations, sometimes for inherited ones
        targets = [r for (r, _, _) in c.decls] + list(c.overrides) + [r for r in sorted(vis) if ch.bool(0.2)]
        names = ["x", "y", "z"]
        for r in targets:
            ar = local[r][0]
            for _ in range(ch.int(1, 2)):
                if ch.bool(0.35):
                    c.clauses.append((r, [str(ch.int(0, 5)) for _ in range(ar)], []))   # fact
                    continue
                body = []
                bound = []
                for _k in range(ch.int(1, 2)):
                    kind = ch.weighted([(4, "local"), (3, "global"), (2, "sub" if subrels else "global")])
                    if kind == "local":
                        cands = sorted(x for x in local if x != r or ch.bool(0.3))
                        if not cands:
                            cands = sorted(local)
                        ref = ch.choice(cands)
                        a2 = local[ref][0]
                        key = ("local", ref)
                    elif kind == "global":
                        g = ch.choice(glob)
                        ref, a2 = g[0], g[1]
                        key = ("global", ref)
                    else:
                        (inst, sr) = ch.choice(sorted(subrels))
                        ref, a2 = (inst, sr), subrels[(inst, sr)]
                        key = ("sub", ref)
                    args = []
                    for _q in range(a2):
                        v = ch.choice(names)
                        args.append(v)
                        if v not in bound:
                            bound.append(v)
                    body.append((key[0], ref, args))
                head = [ch.choice(bound) if ch.bool(0.85) else str(ch.int(0, 5)) for _ in range(ar)]
                if ch.bool(0.2) and bound:
                    body.append(("cmp", "%s != %d" % (ch.choice(bound), ch.int(0, 5)), None))
                c.clauses.append((r, head, body))
        comps.append(c)
    # lexical scoping of component names: a wrapper template that declares (a) a nested template SHADOWING the name of a
    # top-level base template and (b) a nested template derived from a top-level one whose own base carries the shadowed name.
    # Base names are resolved where a template is DECLARED: the derived chain must keep using the top-level template, while
    # `.init` inside the wrapper must pick the nested one.
    wrapper = None
    chained = [c for c in comps if c.bases]
    if chained and ch.bool(0.35):
        mid = ch.choice(chained)
        target = mid.bases[0][0]
        shadow = Comp(target.name)
        shadow.param = target.param
        shadow.decls.append(("q%d" % len(comps), [shadow.param or "number"], False))
        for v in sorted({ch.int(6, 9) for _ in range(ch.int(1, 2))}):
            shadow.clauses.append(("q%d" % len(comps), [str(v)], []))
        d = Comp("D%d" % len(comps))
        d.bases.append((mid, "number" if mid.param else None))
        d.decls.append(("dd%d" % len(comps), ["number"], False))
        inh = {}

        def allrels2(b):
            for bb, _ in b.bases:
                allrels2(bb)
            for (r, tys, ov) in b.decls:
                inh[r] = len(tys)
        allrels2(mid)
        src = ch.choice(sorted(inh))
        d.clauses.append(("dd%d" % len(comps), ["x"], [("local", src, ["x"] + ["y"] * (inh[src] - 1))]))
        wrapper = Comp("W")
        wrapper.nested = [shadow, d]
        wrapper.inits = [("d", d, None), ("s", shadow, "number" if shadow.param else None)]
        if ch.bool(0.5):
            wrapper.nested.reverse()
        comps.append(wrapper)
    # top-level instantiations
    inits = []
    for i in range(ch.int(2, 3)):
        c = ch.choice(comps[-2:]) if ch.bool(0.7) else ch.choice(comps)
        arg = ch.choice(TYPES) if c.param else None
        inits.append(("i%d" % i, c, arg))
    if wrapper is not None:
        inits = [x for x in inits if x[1] is not wrapper] + [("w", wrapper, None)]
    case = {"glob": glob, "comps": comps, "inits": inits}
    return build(case, ch)


# ------------------------------------------------------------------------------------------------ printing (component program)
def fmt_ref(kind, ref):
    if kind == "sub":
        return "%s.%s" % ref
    return ref


def fmt_clause(head_rel, head, body):
    h = "%s(%s)" % (head_rel, ", ".join(head))
    if not body:
        return h + "."
    lits = []
    for kind, ref, args in body:
        if kind == "cmp":
            lits.append(ref)
        else:
            lits.append("%s(%s)" % (fmt_ref(kind, ref), ", ".join(args)))
    return "%s :- %s." % (h, ", ".join(lits))


def print_components(case):
    out = [".type Sub <: number"]
    for (g, ar, facts) in case["glob"]:
        out.append(".decl %s(%s)" % (g, ", ".join("a%d:Sub" % i for i in range(ar))))
        for f in facts:
            out.append("%s(%s)." % (g, ", ".join(map(str, f))))
    def emit(c, ind):
        hdr = ".comp %s%s" % (c.name, "<T>" if c.param else "")
        if c.bases:
            hdr += " : " + ", ".join(b.name + ("<%s>" % a if b.param else "") for b, a in c.bases)
        out.append(ind + hdr + " {")
        for n in c.nested:
            emit(n, ind + "  ")
        for (r, tys, ov) in c.decls:
            out.append(ind + "  .decl %s(%s)%s" % (r, ", ".join("a%d:%s" % (i, t) for i, t in enumerate(tys)), " overridable" if ov else ""))
        for r in c.overrides:
            out.append(ind + "  .override %s" % r)
        for (inst, sc, arg) in c.inits:
            out.append(ind + "  .init %s = %s%s" % (inst, sc.name, "<%s>" % arg if sc.param else ""))
        for (r, head, body) in c.clauses:
            out.append(ind + "  " + fmt_clause(r, head, body))
        out.append(ind + "}")
    for c in case["comps"]:
        emit(c, "")
    for (inst, c, arg) in case["inits"]:
        out.append(".init %s = %s%s" % (inst, c.name, "<%s>" % arg if c.param else ""))
    return out


# ------------------------------------------------------------------------------------------------ the expansion model
def collect(c, targ):
    """content of component c with its type parameter bound to targ: (decls, clauses, inits) after inheritance/overrides"""
    decls, clauses, inits = [], [], []

    def sub(t):
        return targ if (t == "T" and c.param) else t
    for b, arg in c.bases:
        d, cl, ins = collect(b, sub(arg) if arg else None)
        decls += d
        clauses += cl
        inits += ins
    # overridden relations lose every inherited clause
    clauses = [x for x in clauses if x[0] not in c.overrides]
    decls += [(r, [sub(t) for t in tys]) for (r, tys, ov) in c.decls]
    clauses += list(c.clauses)
    inits += [(inst, sc, sub(arg) if arg else None) for (inst, sc, arg) in c.inits]
    return decls, clauses, inits


def expand(case):
    """flat program: list of lines + list of (flat name, dotted name)"""
    out = [".type Sub <: number"]
    names = []
    for (g, ar, facts) in case["glob"]:
        out.append(".decl %s(%s)" % (g, ", ".join("a%d:Sub" % i for i in range(ar))))
        for f in facts:
            out.append("%s(%s)." % (g, ", ".join(map(str, f))))

    def inst(prefix_flat, prefix_dot, c, targ):
        decls, clauses, inits = collect(c, targ)
        local = {r for r, _ in decls}
        for (r, tys) in decls:
            out.append(".decl %s%s(%s)" % (prefix_flat, r, ", ".join("a%d:%s" % (i, t) for i, t in enumerate(tys))))
            names.append((prefix_flat + r, prefix_dot + r))
        for (r, head, body) in clauses:
            lits = []
            for kind, ref, args in body:
                if kind == "cmp":
                    lits.append(ref)
                elif kind == "local":
                    lits.append("%s%s(%s)" % (prefix_flat, ref, ", ".join(args)))
                elif kind == "global":
                    lits.append("%s(%s)" % (ref, ", ".join(args)))
                else:
                    lits.append("%s%s_%s(%s)" % (prefix_flat, ref[0], ref[1], ", ".join(args)))
            h = "%s%s(%s)" % (prefix_flat, r, ", ".join(head))
            out.append(h + (" :- " + ", ".join(lits) if lits else "") + ".")
        for (i2, sc, arg) in inits:
            inst(prefix_flat + i2 + "_", prefix_dot + i2 + ".", sc, arg)
    for (i, c, arg) in case["inits"]:
        inst(i + "_", i + ".", c, arg)
    return out, names


def build(case, ch):
    comp_lines = print_components(case)
    flat_lines, names = expand(case)
    # outer readers + outputs
    outs = []
    for k, (flat, dot) in enumerate(names):
        comp_lines.append(".output %s" % dot)
        flat_lines.append(".output %s" % flat)
        outs.append((flat, dot))
    if names and ch.bool(0.7):
        flat, dot = ch.choice(names)
        ar = [l for l in flat_lines if l.startswith(".decl %s(" % flat)][0].count(":")
        vs = ", ".join("v%d" % i for i in range(ar))
        decl = ".decl outer(%s)" % ", ".join("a%d:number" % i for i in range(ar))
        comp_lines += [decl, ".output outer", "outer(%s) :- %s(%s)." % (vs, dot, vs)]
        flat_lines += [decl, ".output outer", "outer(%s) :- %s(%s)." % (vs, flat, vs)]
        outs.append(("outer", "outer"))
    multi = len({c.name for (_, c, _) in case["inits"]}) < len(case["inits"])
    nested = any(c.inits for c in case["comps"])
    overrides = any(c.overrides for c in case["comps"])
    inherit = any(c.bases for c in case["comps"])
    shadowing = any(c.nested for c in case["comps"])
    return {"shadowing": shadowing, "program": "\n".join(comp_lines) + "\n", "flat": "\n".join(flat_lines) + "\n", "outs": outs, "facts": {},
            "multi": multi, "nested": nested, "overrides": overrides, "inherit": inherit}


def judge(case, st=None):
    a = runner.run_program(case["flat"], {})
    if a.rr.timeout:
        raise Inconclusive("timeout:flat")
    b = runner.run_program(case["program"], {})
    if b.rr.timeout:
        raise Inconclusive("timeout:components")
    if a.rr.rc != 0 and b.rr.rc != 0:
        # the expansion is rejected and so is the component program: "accepted iff its expansion is" holds; not judged further
        raise Discard("both_rejected")
    if a.rr.rc != 0:
        raise Violation("the component program is accepted but its hand expansion is rejected (model error or defect):\n" + a.rr.err[-1200:], {"case": case})
    if b.rr.rc != 0:
        raise Violation("the hand-expanded flat program is accepted but the component program fails: rc=%s\n%s" % (b.rr.rc, b.rr.err[-1200:]), {"case": case})
    msgs = []
    nonempty = 0
    for flat, dot in case["outs"]:
        x, y = a.outputs.get(flat), b.outputs.get(dot)
        if x is None or y is None:
            msgs.append("%s / %s: output file missing (%s)" % (flat, dot, "flat" if x is None else "components"))
            continue
        if sorted(x) != sorted(y):
            msgs.append("%s: flat %r vs components %r" % (dot, sorted(set(x) - set(y))[:5], sorted(set(y) - set(x))[:5]))
        if x:
            nonempty += 1
    if msgs:
        raise Violation("component instantiation differs from textual expansion:\n" + "\n".join(msgs[:8]), {"case": case})
    if st is not None:
        if (case["multi"] or case["nested"]) and (case["overrides"] or case["inherit"]) and nonempty >= 2:
            st.nontrivial.add(common.h(case["program"]))
            for k in ("multi", "nested", "overrides", "inherit", "shadowing"):
                if case.get(k):
                    st.classes[k] += 1
            st.sample({"component_program": case["program"], "flat_expansion": case["flat"]})
        else:
            st.classes["trivial"] += 1


CHECK = PCheck(PID, RULE, gen, judge, quick=1500, thorough=40000, floor=60,
               assumptions=["interpreter back end", "the expansion model is this check's reading of the component semantics (inheritance, override, type parameters, name prefixing)"])
main, replay_file = CHECK.main, CHECK.replay_file
