"""C15 -- printing a parsed program and reparsing it is lossless (parses again, printing is a fixpoint, same outputs)."""
import os
from vlib import dlgen, runner, common
from vlib.common import Violation, Discard, Inconclusive, Scratch, souffle, write_files
from vlib.pcheck import PCheck

PID = "C15"
RULE = ("dlgen programs (all attribute types, records, negation, aggregates incl. non-variable targets, arithmetic functors, min/max, "
        "cat/substr/strlen/to_string, constraints, recursion, constants in alternative spellings (hex, binary, trailing zeros), negative "
        "numbers, inline/no_inline/representation qualifiers) decorated with 1-5 snippets of rarely printed constructs (subtype and union "
        "types, ADTs with nested branches, choice-domain, .plan, subsumptive clauses, functor declarations, as() casts, .output with "
        "parameters, .limitsize/.printsize, components with inheritance and instantiation, magic/no_magic qualifiers, eqrel). "
        "T1 := souffle --show=initial-ast P. Oracle: (1) T1 parses; (2) T2 := --show=initial-ast T1 equals T1 byte for byte; (3) running "
        "T1 writes the same output relations as running P. Constructs whose printed form is already known not to re-parse (findings "
        "F5, F9-F12: debug_delta, bitwise/logical/exponent operators, .pragma, .override, escaped string constants) are excluded from "
        "the campaign and re-tested by dedicated probes. Non-trivial = the program carries >= 2 decorations or >= 1 alternative "
        "constant spelling, and some output is non-empty; distinct by hash of P.")

DECOR = {
 "float_association": '.decl dfa{k}(a:float, b:float, c:float)\ndfa{k}(100000000.0, -100000000.0, 1.0).\ndfa{k}(16777216.0, 1.0, 1.0).\ndfa{k}(100000000000000000000.0, 100000000000000000000.0, 0.00000000000000000001).\n.decl dfo{k}(x:float, y:float, z:float, w:float)\n.output dfo{k}\ndfo{k}(a + (b + c), (a + b) + c, a * (b * c), (a * b) * c) :- dfa{k}(a, b, c).\n',
 "choice_fact_after_rule": '.decl dcs{k}(x:number, y:number)\ndcs{k}(1, 10).\ndcs{k}(2, 20).\n.decl dcf{k}(x:number, y:number) choice-domain x\ndcf{k}(x, y) :- dcs{k}(x, y).\ndcf{k}(1, 11).\ndcf{k}(3, 30).\n.output dcf{k}\n',
 "subtype_union": '.type SubA{k} <: number\n.type SubB{k} <: symbol\n.type SubC{k} <: number\n.type Uni{k} = SubA{k} | SubC{k}\n.decl du{k}(x:Uni{k}, s:SubB{k})\ndu{k}(1, "a").\ndu{k}(-2, "b c").\n.output du{k}\n',
 "adt": '.type Adt{k} = AL{k} {{x:number}} | AB{k} {{l:Adt{k}, r:Adt{k}}} | AN{k} {{}}\n.decl da{k}(a:Adt{k})\nda{k}($AB{k}($AL{k}(1), $AN{k}())).\nda{k}($AL{k}(2)).\n.decl dao{k}(x:number, a:Adt{k})\n.output dao{k}\ndao{k}(x, b) :- da{k}($AB{k}($AL{k}(x), b)).\ndao{k}(x, $AN{k}()) :- da{k}($AL{k}(x)).\n',
 "choice": '.decl dc{k}(x:number, y:number) choice-domain x\ndc{k}(1, 2).\ndc{k}(2, 2).\n.decl dco{k}(x:number)\n.output dco{k}\ndco{k}(x) :- dc{k}(x, 2).\n.decl dcc{k}(x:number, y:number, z:number) choice-domain (x, y), z\ndcc{k}(1, 2, 3).\n.output dcc{k}\n',
 "plan": '.decl dpe{k}(x:number, y:number)\ndpe{k}(1, 2).\ndpe{k}(2, 3).\ndpe{k}(3, 4).\n.decl dp{k}(x:number, y:number)\n.output dp{k}\ndp{k}(x, y) :- dpe{k}(x, y).\ndp{k}(x, z) :- dp{k}(x, y), dp{k}(y, z), dpe{k}(x, _).\n.plan 0:(3,1,2), 1:(2,3,1)\n',
 "subsumption": '.decl ds{k}(x:number, c:number) btree_delete\nds{k}(1, 5).\nds{k}(1, 3).\nds{k}(2, 9).\nds{k}(x, c1) <= ds{k}(x, c2) :- c2 < c1.\n.output ds{k}\n',
 "functor_decl": '.functor dfoo{k}(x:number, y:symbol):number\n.functor dbar{k}(x:float):symbol stateful\n',
 "cast": '.decl dcast{k}(x:unsigned, y:float)\ndcast{k}(as(3, unsigned), as(2, float)).\n.output dcast{k}\n',
 "numbers": '.decl dn{k}(x:number, f:float, u:unsigned)\ndn{k}(-1, -0.25, 0x1F).\ndn{k}(0b101, 1.5, 4294967295).\ndn{k}(-2147483648, 100.125, 0).\ndn{k}(x - (y - 1), f, u) :- dn{k}(x, f, u), dn{k}(y, _, _), x > y, x < 100.\n.output dn{k}\n',
 "output_params": '.decl dop{k}(x:number, s:symbol)\ndop{k}(1, "x y").\ndop{k}(2, "z").\n.output dop{k}(IO=file, filename="dopout{k}.csv", delimiter=",")\n',
 "sizes": '.decl dl{k}(x:number)\ndl{k}(0).\ndl{k}(x + 1) :- dl{k}(x), x < 20.\n.limitsize dl{k}(n=7)\n.printsize dl{k}\n.decl dlo{k}(n:number)\n.output dlo{k}\ndlo{k}(n) :- n = count : {{ dl{k}(_) }}, n >= 7.\n',
 "component": '.comp DK{k}<T> {{\n  .decl r(x:T) overridable\n  .decl s(x:T)\n  r(1).\n  s(x) :- r(x).\n}}\n.comp DL{k} : DK{k}<number> {{\n  .decl t(x:number)\n  t(x + 1) :- s(x).\n}}\n.init di{k} = DL{k}\n.output di{k}.t\n.output di{k}.s\n',
 "qualifiers": '.decl dq{k}(x:number, y:number) eqrel\ndq{k}(1, 2).\ndq{k}(2, 3).\n.output dq{k}\n.decl dm{k}(x:number) magic\n.decl dnm{k}(x:number) no_magic brie\ndm{k}(x) :- dq{k}(x, 3).\ndnm{k}(x) :- dm{k}(x), !dq{k}(x, 99).\n.output dnm{k}\n',
 "disjunction_multihead": '.decl dj1{k}(x:number)\n.decl dj2{k}(x:number)\n.decl dj3{k}(x:number)\ndj1{k}(1).\ndj1{k}(2).\ndj2{k}(x), dj3{k}(x + 1) :- dj1{k}(x), (x > 1 ; x < 0 ; dj1{k}(x + 1)).\n.output dj2{k}\n.output dj3{k}\n',
 "records": '.type DR{k} = [a:number, b:DR{k}]\n.decl dr{k}(l:DR{k})\ndr{k}([1, [2, nil]]).\ndr{k}(nil).\n.decl dro{k}(x:number, t:DR{k})\n.output dro{k}\ndro{k}(x, t) :- dr{k}([x, t]).\n',
 "aggregates": '.decl dg{k}(x:number, y:number)\ndg{k}(1, 2).\ndg{k}(1, 5).\ndg{k}(2, 7).\n.decl dgo{k}(x:number, s:number, m:number)\n.output dgo{k}\ndgo{k}(x, s, m) :- dg{k}(x, _), s = sum (y * 2) : {{ dg{k}(x, y) }}, m = max z : {{ dg{k}(x, z), z > min w : {{ dg{k}(_, w) }} }}.\n',
}


def gen(ch):
    P = dlgen.generate(ch, dlgen.Feat(bitops=False))
    # alternative spellings of constants in program text
    nalt = 0
    def respell(t):
        nonlocal nalt
        if isinstance(t, dlgen.Const) and not isinstance(t.ty, dlgen.RecT) and t.ty != dlgen.SYMBOL and ch.bool(0.25):
            sp = dlgen.alt_spelling(ch, t.val, t.ty)
            if sp is not None:
                t.spelling = sp
                nalt += 1
        elif isinstance(t, (dlgen.Fn, dlgen.RecInit)):
            for a in t.args:
                respell(a)
    for r in P.rules:
        for a in r.head.args:
            respell(a)
        for l in r.body:
            if isinstance(l, dlgen.Atom):
                for a in l.args:
                    respell(a)
            elif isinstance(l, dlgen.Cmp):
                respell(l.lhs)
                respell(l.rhs)
    for n in P.order:
        rel = P.rels[n]
        if rel.kind == "idb" and not rel.recursive and not rel.output and ch.bool(0.15):
            rel.quals.append(ch.choice(["no_inline", "brie", "btree", "no_magic", "magic"]))
        elif len(rel.types) > 0 and ch.bool(0.15):
            rel.quals.append(ch.choice(["brie", "btree"]))
    text, facts = dlgen.to_souffle(P)
    names = ch.sample(sorted(DECOR), ch.int(0, 5))
    for i, nm in enumerate(names):
        text += DECOR[nm].format(k=i)
    return {"program": text, "facts": facts, "decor": names, "nalt": nalt}


def show_ast(text, facts):
    with Scratch("c15") as d:
        files = {"p.dl": text}
        for k, v in facts.items():
            files[os.path.join("facts", k)] = v
        write_files(d, files)
        rr = souffle(["--show=initial-ast", "-F", "facts", "p.dl"], cwd=d, timeout=30)
        return rr


def roundtrip(case):
    """returns (T1, outputs of P, outputs of T1) or raises"""
    r1 = show_ast(case["program"], case["facts"])
    if r1.timeout:
        raise Inconclusive("timeout:print")
    if r1.rc != 0:
        raise Discard("source_rejected")     # not "a program the parser accepts"
    t1 = r1.out
    r2 = show_ast(t1, case["facts"])
    if r2.timeout:
        raise Inconclusive("timeout:reparse")
    if r2.rc != 0:
        raise Violation("the printed form of an accepted program does not parse again: rc=%s\n%s" % (r2.rc, r2.err[-1200:]), {"case": case})
    if r2.out != t1:
        a, b = t1.split("\n"), r2.out.split("\n")
        diff = [(x, y) for x, y in zip(a, b) if x != y][:3]
        raise Violation("printing is not a fixpoint: print(parse(print(P))) differs from print(P); first differing lines: %r (lengths %d vs %d)" % (
            diff, len(a), len(b)), {"case": case})
    a = runner.run_program(case["program"], case["facts"])
    runner.classify_failure(a, "original", case)
    b = runner.run_program(t1, case["facts"])
    runner.classify_failure(b, "printed", case)
    msgs = runner.compare_outputs(a.outputs, b.outputs, la="original", lb="printed")
    if msgs:
        raise Violation("running the printed program gives different outputs:\n" + "\n".join(msgs[:8]), {"case": case})
    return t1, a.outputs


def judge(case, st=None):
    t1, outs = roundtrip(case)
    if st is not None:
        nonempty = any(outs.values())
        if (len(case["decor"]) >= 2 or case["nalt"] >= 1) and nonempty:
            st.nontrivial.add(common.h(case["program"]))
            for d in case["decor"]:
                st.classes["decor:" + d] += 1
            if case["nalt"]:
                st.classes["alt_constant_spelling"] += 1
            st.sample({"program": case["program"], "printed": t1[:3000]}, cap=2)
        else:
            st.classes["trivial"] += 1


PROBES = {
 "F5": '.decl e(x:number)\ne(1).\ne(x + 1) :- e(x), x < 3.\n.output e\n.decl d = debug_delta(e)\n.output d\n',
 "F9": '.decl e(x:number)\ne(6).\n.decl r(x:number, y:number, z:number)\n.output r\nr(x band 3, x bxor 5, x ^ 2) :- e(x).\n',
 "F10": '.pragma "legacy"\n.decl e(x:number)\ne(1).\n.output e\n',
 "F11": '.comp A {\n .decl r(x:number) overridable\n r(1).\n}\n.comp B : A {\n .override r\n r(2).\n}\n.init b = B\n.output b.r\n',
 "F12": '.decl e(s:symbol)\ne("a\\"b\\\\c").\n.output e\n',
}


def probes(st, tier, seed):
    for f in common.findings_for(PID):
        prog = PROBES.get(f["key"])
        if prog is None:
            continue
        try:
            roundtrip({"program": prog, "facts": {}})
        except Violation:
            st.known_lines.append(f["what"])
        except (Discard, Inconclusive):
            pass


CHECK = PCheck(PID, RULE, gen, judge, quick=1500, thorough=40000, floor=60, probes=probes,
               assumptions=["interpreter back end", "five printer findings (F5, F9-F12) are excluded by construction and re-probed"])
main, replay_file = CHECK.main, CHECK.replay_file
