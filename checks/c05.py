"""C05 -- magic-set transformation preserves output relations."""
from vlib import dlgen, runner, common
from vlib.common import Violation
from vlib.pcheck import PCheck

PID = "C05"
RULE = ("dlgen programs (negation, aggregates, records, recursion) with a generated subset of relations as outputs plus 1-2 "
        "query relations that read an IDB relation with constants (so adornments have bound positions); variant = "
        "--magic-transform=* or a random subset of relation names, optionally --magic-transform-exclude=<subset>, optionally "
        "magic/no_magic qualifiers. Output relations compared as multisets with the untransformed run. Non-trivial = the "
        "variant's -v log shows the magic-set core transformer changed the program and a clause guarded by an @magic "
        "relation with a bound adornment position, and some output is non-empty; distinct by hash of (program, variant).")


def add_diamonds(P, ch):
    """queries of the magic_neglabel shape: q(x) :- C(..x..), B(..x..) where C negates (or aggregates over) some relation that in
    turn depends on B -- the magic rules of B then depend on C, which is what negative labelling has to keep apart"""
    from checks.c13 import depends, body_rels
    from vlib.dlgen import Atom, Neg, Cmp, Agg, Var, Wild, Rule, Rel
    dep = depends(P)
    cands = []
    for r in P.rules:
        negged = set()
        for l in r.body:
            if isinstance(l, Neg):
                negged.add(l.atom.rel)
            elif isinstance(l, Cmp):
                for t in (l.lhs, l.rhs):
                    if isinstance(t, Agg):
                        negged |= body_rels(t.body, set())
        for pn in negged:
            for b in sorted(dep.get(pn, ())):
                if P.rels[b].kind == "idb" and b != r.head.rel:
                    cands.append((r.head.rel, b))
    added = []
    for k in range(min(2, len(cands))):
        c, b = ch.choice(cands)
        C, B = P.rels[c], P.rels[b]
        pairs = [(i, j) for i, t in enumerate(C.types) for j, u in enumerate(B.types) if dlgen.tname(t) == dlgen.tname(u) and not isinstance(t, dlgen.RecT)]
        if not pairs:
            continue
        i, j = ch.choice(pairs)
        x = Var("dq%d" % k, C.types[i])
        q = Rel("dq%d" % k, [C.types[i]], "idb")
        q.group = len(P.groups)
        P.add_rel(q)
        P.groups.append([q.name])
        P.rules.append(Rule(Atom(q.name, [x]), [Atom(c, [x if n == i else Wild(t) for n, t in enumerate(C.types)]),
                                                  Atom(b, [x if n == j else Wild(t) for n, t in enumerate(B.types)])]))
        q.output = True
        added.append(q.name)
    return added


def gen(ch):
    P = dlgen.generate(ch, dlgen.Feat())
    idb = [n for n in P.order if P.rels[n].kind == "idb"]
    outs = [n for n in idb if ch.bool(0.35)]
    for n in idb:
        P.rels[n].output = n in outs
    feat = dlgen.Feat()
    qs = dlgen.add_queries(P, ch, feat, ch.int(1, 2))
    outs = outs + qs
    outs = outs + add_diamonds(P, ch)
    if not outs:
        P.rels[idb[-1]].output = True
        outs = [idb[-1]]
    base_text, facts = dlgen.to_souffle(P)
    variant = {"args": []}
    names = [n for n in P.order]
    if ch.bool(0.55):
        variant["args"].append("--magic-transform=*")
    else:
        sub = ch.subset(idb, 0.5) or [ch.choice(idb)]
        variant["args"].append("--magic-transform=" + ",".join(sub))
    if ch.bool(0.2):
        ex = ch.subset(idb, 0.3)
        if ex:
            variant["args"].append("--magic-transform-exclude=" + ",".join(ex))
    if ch.bool(0.25):
        for n in idb:
            if ch.bool(0.3):
                P.rels[n].quals.append(ch.choice(["magic", "no_magic"]))
        variant["program"] = dlgen.to_souffle(P)[0]
    variant["args"].append("-v")
    return {"program": base_text, "facts": facts, "base": {"args": []}, "variant": variant, "relations": outs}


def judge(case, st=None):
    a = runner.run_cfg(case, case["base"])
    runner.classify_failure(a, "base", case)
    b = runner.run_cfg(case, case["variant"])
    runner.classify_failure(b, "variant", case)
    msgs = runner.compare_outputs(a.outputs, b.outputs, case["relations"])
    if msgs:
        raise Violation("output relations differ between the untransformed program and %r:\n%s" % (
            case["variant"]["args"], "\n".join(msgs)), {"case": case})
    if st is not None:
        log = b.rr.out
        core = any(ln.startswith("MagicSetCoreTransformer") and ln.endswith("[changed]") for ln in log.split("\n"))
        guarded = any(("Starting work on" in ln and ":-" in ln and "@magic." in ln.split(":-", 1)[1] and "b" in ln.split("@magic.", 1)[1].split("}", 1)[0])
                      for ln in log.split("\n"))
        nonempty = any(a.outputs.get(n) for n in case["relations"])
        if core and guarded and nonempty:
            st.nontrivial.add(common.h(case["program"] + repr(case["variant"]["args"])))
            st.classes["magic_guarded_clause"] += 1
            if "--magic-transform=*" in case["variant"]["args"]:
                st.classes["all_relations"] += 1
            if "program" in case["variant"]:
                st.classes["qualifiers"] += 1
            st.sample({"program": case["variant"].get("program", case["program"]), "facts": case["facts"],
                       "variant_args": case["variant"]["args"], "outputs": case["relations"]})
        else:
            st.classes["trivial:" + ("no_magic_rule" if not (core and guarded) else "empty_outputs")] += 1


CHECK = PCheck(PID, RULE, gen, judge, quick=2000, thorough=40000, floor=50, assumptions=["interpreter back end"])
main, replay_file = CHECK.main, CHECK.replay_file
