"""C08 -- relation representation is transparent; an eqrel relation holds the equivalence closure in every binding pattern."""
import json
from vlib import dlgen, dlref, runner, common
from vlib.common import Violation, Discard, Inconclusive
from vlib.dlgen import Rel, Rule, Atom, Neg, Cmp, Var, Const, Agg, Program, NUMBER
from vlib.refops import OutOfDomain, I32_MIN, I32_MAX
from vlib.pcheck import PCheck

PID = "C08"
REPRS = ["", "btree", "brie", "btree_delete"]
RULE = ("Two generated families. (a) dlgen programs (all attribute types, records, values incl. the type extremes INT_MIN/INT_MAX/"
        "UINT_MAX) run twice: as written and with every relation's representation qualifier drawn from {default, btree, brie, "
        "btree_delete}; all output relations compared as multisets. (b) eqrel programs: a binary relation declared `eqrel` fed by facts, "
        "copy rules, (in half the cases) a recursive rule and (in 40%) reader relations inside eq's own recursive stratum, then read by output rules in every binding pattern -- free/free, "
        "constant/free, free/constant, constant/constant, same variable twice, bound through a join on either or both columns, "
        "under negation, inside a count aggregate, joined with itself -- with probe values drawn from members, non-members and the "
        "domain extremes (the value -2^31 as an eqrel element is excluded: known finding F4, probed separately); every output "
        "relation must equal what the reference evaluator dlref computes with eq := reflexive-symmetric-transitive closure over the "
        "elements occurring in derived pairs. Non-trivial = (a) >= 2 relations changed representation and an output is non-empty, "
        "(b) the closure has a class of >= 3 elements and >= 5 reading rules return tuples; distinct by hash of the program text(s).")


# ---------------------------------------------------------------------------------------------- (a)
def gen_repr(ch):
    feat = dlgen.Feat(min_numeric_domain=True)
    P = dlgen.generate(ch, feat)
    base_text, facts = dlgen.to_souffle(P)
    changed = 0
    for n in P.order:
        rel = P.rels[n]
        q = ch.choice(REPRS)
        if q == "btree_delete" and len(rel.types) == 0:
            q = "btree"   # "Subsumptive relation must not be a nullary relation" (a clean rejection, outside the property)
        if q:
            rel.quals.append(q)
            changed += 1
    var_text = dlgen.to_souffle(P)[0]
    return {"kind": "repr", "program": base_text, "facts": facts, "base": {"args": []},
            "variant": {"args": [], "program": var_text}, "changed": changed}


# ---------------------------------------------------------------------------------------------- (b)
EQ_POOL = list(range(0, 8))
EQ_EXTREME = [I32_MAX, I32_MIN + 1, -1, 65536]


def eqval(ch, allow_extreme=True):
    if allow_extreme and ch.bool(0.15):
        return ch.choice(EQ_EXTREME)
    return ch.choice(EQ_POOL)


def gen_eqrel(ch):
    P = Program()
    p = Rel("p", [NUMBER, NUMBER], "edb")
    p.facts = sorted({(eqval(ch), eqval(ch)) for _ in range(ch.int(1, 9))})
    p.output = False
    P.add_rel(p)
    q = Rel("q", [NUMBER, NUMBER], "edb")
    q.facts = sorted({(eqval(ch), eqval(ch)) for _ in range(ch.int(0, 5))})
    q.output = False
    P.add_rel(q)
    k = Rel("k", [NUMBER], "edb")
    k.facts = sorted({(eqval(ch),) for _ in range(ch.int(1, 6))} | ({(ch.choice([99, -7, I32_MAX - 1]),)} if ch.bool(0.5) else set()))
    k.output = False
    P.add_rel(k)
    eq = Rel("eq", [NUMBER, NUMBER], "idb")
    eq.quals.append("eqrel")
    eq.output = ch.bool(0.5)
    eq.group = 0
    P.add_rel(eq)
    P.groups.append(["eq"])
    X, Y, Z, V, W, Nn = (Var(n, NUMBER) for n in ("x", "y", "z", "v", "w", "n"))
    P.rules.append(Rule(Atom("eq", [X, Y]), [Atom("p", [X, Y])]))
    if ch.bool(0.5):
        eq.recursive = True
        body = [Atom("eq", [X, Y]), Atom("q", [Y, Z])]
        if ch.bool(0.5):
            body.reverse()
        r = Rule(Atom("eq", [X, Z]), body)
        r.tags.add("rec")
        P.rules.append(r)
    if ch.bool(0.3):
        P.rules.append(Rule(Atom("eq", [X, X]), [Atom("k", [X])]))
    if ch.bool(0.4):
        # readers INSIDE the recursive stratum of eq (eq depends on them): look-ups with either column bound while the closure grows
        eq.recursive = True
        grp = P.groups[0]
        # bridges between the classes seeded by p, reachable from the probe values, so that classes merge while the readers run
        mem = sorted({v for t in p.facts for v in t})
        extra = {(ch.choice(mem), ch.choice(mem)) for _ in range(ch.int(1, 4))}
        q.facts = sorted(set(q.facts) | extra)
        k.facts = sorted(set(k.facts) | {(ch.choice(mem),)})
        for nm, atom in (("m1", Atom("eq", [V, Y])), ("m2", Atom("eq", [Y, V]))):
            if not ch.bool(0.85):
                continue
            r = Rel(nm, [NUMBER], "idb")
            r.group = 0
            r.recursive = True
            P.add_rel(r)
            grp.append(nm)
            rr = Rule(Atom(nm, [Y]), [Atom("k", [V]), atom])
            rr.tags.add("rec")
            P.rules.append(rr)
            back = Rule(Atom("eq", [X, Z]), [Atom(nm, [X]), Atom("q", [X, Z])])
            back.tags.add("rec")
            P.rules.append(back)
    members = sorted({v for t in p.facts for v in t}) or [0]

    def probe():
        r = ch.int(0, 9)
        if r < 6:
            return ch.choice(members)
        if r < 8:
            return ch.choice(EQ_POOL)
        return ch.choice([99, I32_MAX, I32_MIN + 1, -1])
    c1, c2 = Const(probe(), NUMBER), Const(probe(), NUMBER)
    readers = [
        ("s_ff", [X, Y], [Atom("eq", [X, Y])]),
        ("s_cf", [Y], [Atom("eq", [c1, Y])]),
        ("s_fc", [X], [Atom("eq", [X, c1])]),
        ("s_cc", [Const(1, NUMBER)], [Atom("eq", [c1, c2])]),
        ("s_same", [X], [Atom("eq", [X, X])]),
        ("s_jb1", [V, Y], [Atom("k", [V]), Atom("eq", [V, Y])]),
        ("s_jb2", [V, X], [Atom("k", [V]), Atom("eq", [X, V])]),
        ("s_jbb", [V, W], [Atom("k", [V]), Atom("k", [W]), Atom("eq", [V, W])]),
        ("s_neg", [V], [Atom("k", [V]), Neg(Atom("eq", [V, c1]))]),
        ("s_negbb", [V, W], [Atom("k", [V]), Atom("k", [W]), Neg(Atom("eq", [V, W]))]),
        ("s_self", [X, Z], [Atom("eq", [X, Y]), Atom("eq", [Y, Z]), Atom("k", [X])]),
        ("s_jq", [X, Z], [Atom("q", [X, Y]), Atom("eq", [Y, Z])]),
    ]
    g = 1
    for name, head, body in readers:
        if not ch.bool(0.75):
            continue
        r = Rel(name, [NUMBER] * len(head), "idb")
        r.group = g
        P.add_rel(r)
        P.groups.append([name])
        g += 1
        P.rules.append(Rule(Atom(name, head), body))
    if ch.bool(0.6):
        r = Rel("s_cnt", [NUMBER, NUMBER], "idb")
        r.group = g
        P.add_rel(r)
        P.groups.append(["s_cnt"])
        agg = Agg("count", None, [Atom("eq", [V, Y])], NUMBER, [Y])
        P.rules.append(Rule(Atom("s_cnt", [V, Nn]), [Atom("k", [V]), Cmp("=", Nn, agg, NUMBER)]))
    if not any(P.rels[n].output for n in P.order):
        eq.output = True
    text, facts = dlgen.to_souffle(P)
    return {"kind": "eqrel", "program": text, "facts": facts, "_P": P}


def gen(ch):
    if ch.bool(0.5):
        return gen_repr(ch)
    c = gen_eqrel(ch)
    P = c.pop("_P")
    try:
        db, rs = dlref.evaluate(P)
    except OutOfDomain as e:
        c["expected"] = None
        return c
    c["expected"] = {n: sorted("\t".join(str(v) for v in t) if t else "()" for t in db[n]) for n in P.order if P.rels[n].output}
    c["classes"] = max([0] + [sum(1 for (a, b) in db["eq"] if a == x) for x in {a for a, _ in db["eq"]}])
    return c


def judge(case, st=None):
    if case["kind"] == "repr":
        a, b = runner.differential(case)
        if st is not None:
            nonempty = any(a.outputs.values())
            if case["changed"] >= 2 and nonempty:
                st.nontrivial.add(common.h(case["program"] + case["variant"]["program"]))
                st.classes["repr:changed>=2"] += 1
                if not any(isinstance(s, dict) and s.get("kind") == "repr" for s in st.samples):
                    st.samples.append({"kind": "repr", "program": case["variant"]["program"], "facts": case["facts"]})
            else:
                st.classes["repr:trivial"] += 1
        return
    if case.get("expected") is None:
        raise Discard("ood")
    res = runner.run_program(case["program"], case["facts"])
    runner.classify_failure(res, "eqrel", case)
    msgs = []
    hits = 0
    for n, exp in case["expected"].items():
        got = res.outputs.get(n)
        if got is None:
            msgs.append("%s: no output file" % n)
            continue
        if len(set(got)) != len(got):
            msgs.append("%s: duplicate tuples" % n)
        miss, extra = sorted(set(exp) - set(got))[:5], sorted(set(got) - set(exp))[:5]
        if miss or extra:
            msgs.append("%s: missing %r spurious %r" % (n, miss, extra))
        if got:
            hits += 1
    if msgs:
        raise Violation("eqrel relation read does not return the equivalence closure:\n" + "\n".join(msgs), {"case": case})
    if st is not None:
        if case.get("classes", 0) >= 3 and hits >= 5:
            st.nontrivial.add(common.h(case["program"]))
            st.classes["eqrel:class>=3,readers>=5"] += 1
            if not any(isinstance(s, dict) and s.get("kind") == "eqrel" for s in st.samples):
                st.samples.append({"kind": "eqrel", "program": case["program"], "facts": case["facts"]})
        else:
            st.classes["eqrel:trivial"] += 1


F4_PROGRAM = '''.decl p(a:number,b:number)
p(-2147483648,7). p(1,2). p(2,3). p(5,5).
.decl k(v:number)
k(-2147483648). k(1). k(9).
.decl eq(a:number,b:number) eqrel
eq(x,y) :- p(x,y).
.decl s(v:number,y:number)
.output s
s(v,y) :- k(v), eq(v,y).
'''


def probes(st, tier, seed):
    for f in common.findings_for(PID):
        if f["key"] == "F4":
            res = runner.run_program(F4_PROGRAM, {})
            got = set(res.outputs.get("s") or [])
            if res.rr.rc == 0 and got - {"-2147483648\t-2147483648", "-2147483648\t7", "1\t1", "1\t2", "1\t3"}:
                st.known_lines.append(f["what"])


CHECK = PCheck(PID, RULE, gen, judge, quick=2000, thorough=40000, floor=60, probes=probes,
               assumptions=["interpreter back end (compiled back end is covered by C02's bundles)", "dlref's eqrel = closure over elements of derived pairs"])
main, replay_file = CHECK.main, CHECK.replay_file
