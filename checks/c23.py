"""C23 -- a .limitsize directive truncates a recursive relation soundly."""
from vlib import dlgen, runner, common
from vlib.common import Violation, Discard
from vlib.pcheck import PCheck

PID = "C23"
RULE = ("recursion workloads (random graph + linear/non-linear transitive closure, bounded counters, mutual recursion, dependency rings of 3-4 relations, same-generation, "
        "reachability with negated lower-stratum filters; 70%) and general dlgen programs with a recursive relation (30%) + `.limitsize R(n=k)` on one recursive relation R; k is drawn relative to the unlimited size "
        "s=|S| measured by the base run (k in {1..12 absolute, s-1, s, s+1, s/2, s/4, 2s+3}). Oracle: L subset of S; |S| < k => L == S; "
        "|S| >= k => |L| >= k; no duplicate lines; the limited run uses -j1 (default), -j2 or -j4; the limit is written with 0-2 leading zeros. Non-trivial = k <= |S| and the limit cut the recursion short (|L| < |S|); "
        "classes also count k == s, k == s+1 and k > s; distinct by hash of (program, k).")


def gen(ch):
    if ch.bool(0.7):
        P = dlgen.gen_recursive(ch, ring=True)
    else:
        P = dlgen.generate(ch, dlgen.Feat(max_groups=4))
    rec = [n for n in P.order if P.rels[n].recursive and len(P.rels[n].types) > 0]
    if not rec:
        return {"none": True, "program": dlgen.to_souffle(P)[0], "facts": {}}
    R = ch.choice(rec)
    P.rels[R].output = True
    text, facts = dlgen.to_souffle(P)
    kmode = ch.weighted([(3, "abs"), (2, "s-1"), (2, "s"), (2, "s+1"), (3, "s/2"), (1, "2s+3"), (2, "s/4")])
    kabs = ch.int(1, 12)
    return {"program": text, "facts": facts, "rel": R, "kmode": kmode, "kabs": kabs, "args": ch.choice([[], [], ["-j4"], ["-j2"]]), "lead": ch.choice(["", "", "", "0", "00"])}


def judge(case, st=None):
    if case.get("none"):
        raise Discard("no_recursive_relation")
    R = case["rel"]
    a = runner.run_program(case["program"], case["facts"])
    runner.classify_failure(a, "base", case)
    S = a.outputs.get(R)
    if S is None:
        raise Violation("base run wrote no output for %s" % R, {"case": case})
    s = len(set(S))
    k = {"abs": case["kabs"], "s-1": s - 1, "s": s, "s+1": s + 1, "s/2": s // 2, "2s+3": 2 * s + 3, "s/4": s // 4}[case["kmode"]]
    if k < 1:
        k = 1
    prog = case["program"] + ".limitsize %s(n=%s%d)\n" % (R, case.get("lead") or "", k)     # (the limit is a decimal number)
    b = runner.run_program(prog, case["facts"], args=case.get("args") or [])
    runner.classify_failure(b, "limited", dict(case, program=prog))
    L = b.outputs.get(R)
    if L is None:
        raise Violation("limited run wrote no output for %s" % R, {"case": case})
    setS, setL = set(S), set(L)
    msgs = []
    if len(setL) != len(L):
        msgs.append("duplicate tuples in the limited output")
    if not setL <= setS:
        msgs.append("limited output is not a subset of the unlimited result: extra %r" % sorted(setL - setS)[:5])
    if s < k and setL != setS:
        msgs.append("|S|=%d < k=%d but limited output differs from the unlimited result: missing %r" % (s, k, sorted(setS - setL)[:5]))
    if s >= k and len(setL) < k:
        msgs.append("|S|=%d >= k=%d but the limited output holds only %d tuples" % (s, k, len(setL)))
    if msgs:
        raise Violation("limitsize %s(n=%d) is unsound:\n%s" % (R, k, "\n".join(msgs)), {"case": case})
    if st is not None:
        if k <= s and len(setL) < s:
            st.nontrivial.add(common.h(prog))
            st.classes["limit_cut_recursion"] += 1
            st.sample({"program": prog, "facts": case["facts"], "unlimited_size": s, "k": k, "limited_size": len(setL)})
        elif k == s:
            st.classes["k==s"] += 1
        elif k == s + 1:
            st.classes["k==s+1"] += 1
        elif k > s:
            st.classes["k>s"] += 1
        else:
            st.classes["k<=s_but_full_result"] += 1


CHECK = PCheck(PID, RULE, gen, judge, quick=2000, thorough=50000, floor=50, assumptions=["interpreter back end"])
main, replay_file = CHECK.main, CHECK.replay_file
