"""C07 -- user execution plans, SIPS metrics and profile-guided auto-scheduling preserve output relations."""
import os
from vlib import dlgen, runner, common
from vlib.common import Violation, Discard, Inconclusive, Scratch, souffle, write_files, read_outputs
from vlib.dlgen import Atom
from vlib.pcheck import PCheck

PID = "C07"
SIPS = ["strict", "all-bound", "naive", "max-bound", "delta-max-bound", "max-ratio", "least-free", "least-free-vars", "input"]
OPT = ["MinimiseProgramTransformer", "RemoveRelationCopiesTransformer", "RemoveEmptyRelationsTransformer",
       "RemoveRedundantRelationsTransformer", "ReduceExistentialsTransformer", "ReplaceSingletonVariablesTransformer",
       "PartitionBodyLiteralsTransformer", "SimplifyConstantBinaryConstraintsTransformer", "RemoveRedundantSumsTransformer"]
PLAN_DIAG = ["Invalid execution order", "Ignored execution plan", "execution plan for version"]
RULE = ("dlgen programs with 1-4 body atoms per rule (negation, constraints, functors, records, aggregates, recursion incl. mutual "
        "and non-linear; in 40% of the plan cases the recursion-pattern generator: non-linear closure, same generation, mutual recursion "
        "over random graphs); variant = (a) `.plan v:(perm)` entries on recursive clauses: for a random non-empty subset of the versions "
        "v in 0..#atoms-in-own-SCC-1 a random permutation of ALL positive body atoms (exactly what ExecutionPlanChecker accepts; "
        "optional AST passes are disabled in both runs so the atom count is the source's; plans souffle still rejects are discarded "
        "and counted), (b) each -PRamSIPS:<metric> of the 9 metrics, (c) profile-guided auto-scheduling: a profiling run with "
        "--emit-statistics followed by --auto-schedule=<that profile>. All output relations compared as multisets with the default "
        "join order's. Non-trivial = --show=initial-ram differs between base and variant (the join order really changed) and some "
        "output is non-empty; distinct by hash of (program, variant).")


def pos_atoms_printed(rule):
    return [rule.body[i] for i in rule.order if isinstance(rule.body[i], Atom)]


def gen(ch):
    feat = dlgen.Feat(max_atoms=4, max_groups=4)
    mode = ch.weighted([(4, "plan"), (4, "sips"), (2, "auto")])
    if mode == "plan" and ch.bool(0.4):
        # recursion patterns with 2 recursive atoms per rule (non-linear closure, same generation, mutual recursion)
        P = dlgen.gen_recursive(ch, max_nodes=9, max_edges=16, npatterns=(1, 3))
    else:
        P = dlgen.generate(ch, feat)
    base = {"args": []}
    variant = {"args": []}
    nplans = 0
    if mode == "plan":
        rec_rules = []
        for r in P.rules:
            scc = None
            for g in P.groups:
                if r.head.rel in g:
                    scc = g
            atoms = pos_atoms_printed(r)
            nver = sum(1 for a in atoms if a.rel in scc)
            if P.rels[r.head.rel].recursive and nver >= 1 and len(atoms) >= 2:
                rec_rules.append((r, atoms, nver))
        if not rec_rules:
            mode = "sips"
        else:
            base_text, facts = dlgen.to_souffle(P)
            for r, atoms, nver in rec_rules:
                if not ch.bool(0.75):
                    continue
                entries = []
                for v in range(nver):
                    if ch.bool(0.6):
                        perm = ch.shuffle(list(range(1, len(atoms) + 1)))
                        entries.append("%d:(%s)" % (v, ",".join(map(str, perm))))
                if entries:
                    r.plan = ".plan " + ", ".join(entries)
                    nplans += 1
            if nplans == 0:
                r, atoms, nver = rec_rules[0]
                perm = list(range(len(atoms), 0, -1))
                r.plan = ".plan 0:(%s)" % ",".join(map(str, perm))
                nplans = 1
            variant["program"] = dlgen.to_souffle(P)[0]
            dis = "--disable-transformers=" + ",".join(OPT)
            base["args"].append(dis)
            variant["args"].append(dis)
            return {"program": base_text, "facts": facts, "base": base, "variant": variant, "mode": mode, "nplans": nplans}
    text, facts = dlgen.to_souffle(P)
    if mode == "sips":
        variant["args"].append("-PRamSIPS:" + ch.choice(SIPS))
    else:
        variant["auto"] = True
        if ch.bool(0.3):
            variant["args"].append("-j4")
            base["args"].append("-j4")
    return {"program": text, "facts": facts, "base": base, "variant": variant, "mode": mode, "nplans": 0}


def run_auto(case, timeout=30):
    """profiling run with --emit-statistics, then --auto-schedule; returns ProgResult of the second run"""
    with Scratch("auto") as d:
        files = {"p.dl": case["program"]}
        for k, v in case["facts"].items():
            files[os.path.join("facts", k)] = v
        write_files(d, files)
        for sub in ("facts", "out1", "out2"):
            os.makedirs(os.path.join(d, sub), exist_ok=True)
        args = list(case["variant"]["args"])
        r1 = souffle(["-F", "facts", "-D", "out1", "-p", "prof.json", "--emit-statistics"] + args + ["p.dl"], cwd=d, timeout=timeout)
        if r1.timeout:
            raise Inconclusive("timeout:profile")
        if r1.rc != 0:
            raise Violation("profiling run with --emit-statistics failed: rc=%s\n%s" % (r1.rc, r1.err[-1200:]), {"case": case})
        r2 = souffle(["-F", "facts", "-D", "out2", "-a", "prof.json"] + args + ["p.dl"], cwd=d, timeout=timeout)
        outs = read_outputs(os.path.join(d, "out2"))
        ram = souffle(["--show=initial-ram", "-F", "facts", "-a", "prof.json"] + args + ["p.dl"], cwd=d, timeout=timeout)
        return runner.ProgResult(r2, outs), (ram.out if ram.rc == 0 else None), r2.err


def judge(case, st=None):
    a = runner.run_cfg(case, case["base"])
    runner.classify_failure(a, "base", case)
    ram_b = None
    if case["variant"].get("auto"):
        b, ram_b, err2 = run_auto(case)
        if b.rr.rc not in (0, None) and F21_SIG in b.rr.err:
            # known finding F21 (recorded, not repaired): excluded from the campaign and counted so the search continues
            if st is not None:
                st.known["F21:auto-schedule getIterations assertion"] += 1
            raise Discard("known:F21")
        runner.classify_failure(b, "auto-schedule", case)
        if "cannot be used due to missing scheduler stats" in err2:
            # programs without any join produce no scheduler statistics; souffle then documents a fall-back to the
            # heuristic. Not part of the property: counted as a trivial case.
            ram_b = None
            if st is not None:
                st.classes["auto_schedule_fell_back_no_stats"] += 1
    else:
        b = runner.run_cfg(case, case["variant"])
        runner.classify_failure(b, "variant", case, accept_diag=PLAN_DIAG)
    msgs = runner.compare_outputs(a.outputs, b.outputs)
    if msgs:
        raise Violation("output relations differ between the default join order and %s %r:\n%s" % (
            case["mode"], case["variant"]["args"], "\n".join(msgs)), {"case": case})
    if st is not None:
        ram_a = runner.show(case["program"], case["facts"], "initial-ram", args=case["base"]["args"])
        if ram_b is None and not case["variant"].get("auto"):
            ram_b = runner.show(case["variant"].get("program", case["program"]), case["facts"], "initial-ram", args=case["variant"]["args"])
        nonempty = any(a.outputs.values())
        if ram_a is not None and ram_b is not None and ram_a != ram_b and nonempty:
            st.nontrivial.add(common.h(case["program"] + repr(case["variant"])))
            st.classes["order_changed:" + case["mode"]] += 1
            if case["mode"] == "sips":
                st.classes[case["variant"]["args"][0]] += 1
            if len(st.samples) < 3 and not any(s.get("mode") == case["mode"] for s in st.samples):
                st.samples.append({"mode": case["mode"], "program": case["variant"].get("program", case["program"]), "facts": case["facts"],
                                   "variant_args": case["variant"]["args"], "auto_schedule": bool(case["variant"].get("auto"))})
        else:
            st.classes["trivial:" + case["mode"]] += 1


F21_SIG = "souffle::profile::Reader::getIterations"
F21_PROGRAM = '.decl e0(a0:number)\ne0(0).\n.decl e1(a0:number)\n.input e1\n.decl r0(a0:number, a1:number)\n.output r0\n.decl r1(a0:number, a1:number, a2:symbol)\n.output r1\n.decl r2(a0:number, a1:symbol)\n.output r2\nr0((v1 + v1), v1) :- e0(v1), e0(v2), !e0(v1), v1 != v2.\nr1(v5, v3, v6) :- r0(0, v3), e0(v7), e0(0), r1(v4, v5, v6).\nr1(v8, v8, v9) :- r1(_, v8, v9), e0(v8), e0(_).\nr1(v11, v11, "ab") :- r1(v10, v11, v12), v15 = count : { e0(v11), e0(v14), !e1(v10) }, v16 = count : { e0(-3) }, r0(v13, v13), v10 <= -1.\nr2(v17, v19) :- r1(v17, v18, v19), e1(v17).\nr2(v21, v20) :- !e0(v21), r2(_, v20), !e0(v21), r0(_, 0), r2(_, v20), e1(v21).\n'
F21_FACTS = {'e1.facts': '0\n6\n2147483647\n'}


def probes(st, tier, seed):
    for f in common.findings_for(PID):
        if f["key"] == "F21":
            case = {"program": F21_PROGRAM, "facts": F21_FACTS, "variant": {"args": ["-j4"], "auto": True}}
            try:
                b, _, _ = run_auto(case)
            except (Violation, Inconclusive):
                continue
            if b.rr.rc not in (0, None) and F21_SIG in b.rr.err:
                st.known_lines.append(f["what"])


CHECK = PCheck(PID, RULE, gen, judge, quick=1200, thorough=30000, floor=50, probes=probes,
               assumptions=["interpreter back end", "plans are validated by souffle after the mandatory AST passes; rejected plans are discarded, not judged"])
main, replay_file = CHECK.main, CHECK.replay_file
