"""Driver: ./check <id> [--tier quick|thorough] [--replay file]. Exit 0 = held on everything explored;
1 = violation (a line `VIOLATION property=<id> replay=<path>` is printed); 2 = the check itself is broken."""
import sys, os, importlib, argparse
sys.path.insert(0, os.path.dirname(os.path.dirname(os.path.abspath(__file__))))
from vlib import common


def main():
    ap = argparse.ArgumentParser()
    ap.add_argument("pid")
    ap.add_argument("--tier", default=os.environ.get("VERIF_TIER", "quick"))
    ap.add_argument("--replay")
    ap.add_argument("--no-build", action="store_true")
    a = ap.parse_args()
    pid = a.pid.upper()
    tier = a.tier if a.tier in ("quick", "thorough") else "quick"
    mod = importlib.import_module("checks.%s" % pid.lower())
    if not a.no_build and getattr(mod, "NEEDS_SOUFFLE", True):
        common.ensure_build()
    seed = common.seed_from_env()
    if a.replay:
        rc = mod.replay_file(a.replay)
    else:
        rc = mod.main(tier, seed)
    sys.stdout.flush()
    sys.exit(rc)


if __name__ == "__main__":
    main()
