"""C02 -- compiled programs (one file / several files) agree with the interpreter and with the stratified least model."""
import os, time, json
from vlib import dlgen, dlref, runner, common
from vlib.common import Violation, Discard, Inconclusive, Stats, Scratch, souffle, write_files, read_outputs
from vlib.refops import OutOfDomain
from vlib.hyp import Chooser

PID = "C02"
RULE = ("Bundles: one generated file holds 6-10 independent dlgen sub-programs (disjoint name prefixes; all attribute types incl. "
        "unsigned/float columns with inequalities, records, negation, aggregates of every kind, functors, recursion, values at the type "
        "extremes; every relation's representation drawn from {default, btree, brie} and some eqrel-free btree_delete), with inline and "
        ".facts EDBs. Each bundle is run by the interpreter and compiled to C++ (`-c`; in the thorough tier also `-C` multi-file and "
        "`-g` + souffle-compile.py) and every output relation is compared as a multiset; each sub-program whose values lie in the "
        "reference evaluator's domain is also compared with dlref (stratified least model). A compile error of generated C++ is a "
        "violation (after one retry). A disagreeing bundle is attributed by re-running each sub-program on its own. "
        "Non-trivial = a sub-program with a non-empty derived relation; counted per distinct sub-program text.")


def gen(ch):
    k = ch.int(6, 10)
    subs = []
    for i in range(k):
        P = dlgen.generate(ch, dlgen.Feat(min_numeric_domain=True, max_groups=4, adts=True, ranges=True, disjunctions=True, multihead=True))
        if ch.bool(0.5):
            dlgen.add_agg_only(P, ch)     # rules whose outermost operation is an (indexed, possibly parallel) aggregate
        for n in P.order:
            rel = P.rels[n]
            q = ch.weighted([(5, ""), (2, "btree"), (3, "brie")])
            if q and len(rel.types) > 0:
                rel.quals.append(q)
        text, facts = dlgen.to_souffle(P)
        try:
            db, _ = dlref.evaluate(P)
            model = {n: sorted("\t".join(dlgen.fmt_const(v, t, True) for v, t in zip(tp, P.rels[n].types)) if tp else "()" for tp in db[n])
                     for n in P.order if P.rels[n].output}
            types = {n: [dlgen.tname(t) for t in P.rels[n].types] for n in model}
        except OutOfDomain:
            model, types = None, None
        pfx = "b%d_" % i
        ptext, pfacts = dlgen.prefix_program(text, facts, pfx)
        subs.append({"text": ptext, "facts": pfacts, "prefix": pfx, "plain": text, "model": model, "types": types})
    mode = ch.weighted([(6, "-c"), (1, "-C")])
    return {"subs": subs, "mode": mode, "j": ch.choice(["-j1", "-j4"])}


def run_bundle(subs, mode, j, compile_timeout=1500):
    text = "".join(s["text"] for s in subs)
    facts = {}
    for s in subs:
        facts.update(s["facts"])
    with Scratch("c02") as d:
        files = {"p.dl": text}
        for k, v in facts.items():
            files[os.path.join("facts", k)] = v
        write_files(d, files)
        for sub in ("facts", "oi", "oc"):
            os.makedirs(os.path.join(d, sub), exist_ok=True)
        ri = souffle(["-F", "facts", "-D", "oi", j, "p.dl"], cwd=d, timeout=120)
        oi = read_outputs(os.path.join(d, "oi"))
        rc = None
        for attempt in range(2):
            rc = souffle(["-F", "facts", "-D", "oc", j, mode, "p.dl"], cwd=d, timeout=compile_timeout)
            if rc.timeout or rc.rc == 0:
                break
        oc = read_outputs(os.path.join(d, "oc"))
    return ri, oi, rc, oc


def judge(case, st=None, attribute=True):
    subs = case["subs"]
    ri, oi, rc, oc = run_bundle(subs, case["mode"], case["j"])
    pub = {"mode": case["mode"], "j": case["j"], "subs": [{"text": s["text"], "facts": s["facts"], "prefix": s["prefix"]} for s in subs]}
    if ri.timeout:
        raise Inconclusive("timeout:interpreter")
    if ri.rc != 0:
        raise Violation("interpreter failed on the bundle: rc=%s\n%s" % (ri.rc, ri.err[-1200:]), {"case": pub})
    if rc.timeout:
        raise Inconclusive("timeout:compile")
    msgs = []
    if rc.rc != 0:
        msgs.append("compiled mode %s failed on an accepted program: rc=%s\n%s" % (case["mode"], rc.rc, (rc.err or rc.out)[-1500:]))
    else:
        msgs += runner.compare_outputs(oi, oc, la="interpreter", lb="compiled" + case["mode"])
    # reference model per sub-program (both back ends)
    for s in subs:
        if not s.get("model"):
            continue
        for n, want in s["model"].items():
            for label, outs in (("interpreter", oi), ("compiled", oc if rc.rc == 0 else None)):
                if outs is None:
                    continue
                got = outs.get(s["prefix"] + n)
                if got is None:
                    msgs.append("%s: %s%s: no output file" % (label, s["prefix"], n))
                    continue
                try:
                    tys = s["types"][n]
                    g = sorted(dlref.parse_rows(got, [t if t in dlgen.BASE else None for t in tys])) if all(t in dlgen.BASE for t in tys) else None
                    w = sorted(dlref.parse_rows(want, tys)) if g is not None else None
                except ValueError:
                    g = w = None
                if g is not None and g != w:
                    msgs.append("%s: %s%s differs from the least model: missing %r spurious %r" % (
                        label, s["prefix"], n, [x for x in w if x not in g][:4], [x for x in g if x not in w][:4]))
    if msgs:
        if attribute and len(subs) > 1:
            # re-run each sub-program on its own to find a minimal failing one
            for s in subs:
                one = {"subs": [s], "mode": case["mode"], "j": case["j"]}
                try:
                    judge(one, None, attribute=False)
                except Violation as v:
                    raise Violation("(attributed to sub-program %s of a bundle of %d)\n%s" % (s["prefix"], len(subs), v.msg), v.detail)
                except (Discard, Inconclusive):
                    pass
        raise Violation("compiled and interpreted results differ:\n" + "\n".join(msgs[:10]), {"case": pub})
    if st is not None:
        for s in subs:
            names = [k for k in oi if k.startswith(s["prefix"] + "r") or k.startswith(s["prefix"] + "q")]
            if any(oi.get(k) for k in names):
                st.nontrivial.add(common.h(s["plain"]))
                st.classes["subprogram_nontrivial"] += 1
                if "brie" in s["text"]:
                    st.classes["has_brie_relation"] += 1
                if s.get("model"):
                    st.classes["also_checked_against_least_model"] += 1
            else:
                st.classes["subprogram_trivial"] += 1
        st.classes["bundle_mode:" + case["mode"]] += 1
        st.extra["programs"] = st.extra.get("programs", 0) + len(subs)
        if len(st.samples) < 2:
            st.samples.append({"mode": case["mode"], "j": case["j"], "one_subprogram_of_the_bundle": subs[0]["text"], "facts": subs[0]["facts"]})


def worker(shard, seed, n, params):
    """bundles are drawn from a seeded PRNG chooser (a pure function of VERIF_SEED): one case costs a C++ compile, so library
    shrinking is replaced by attribution to a single sub-program"""
    from vlib.hyp import SeededChooser
    st = Stats()
    for i in range(n):
        ch = SeededChooser(seed * 1000 + i)
        case = gen(ch)
        st.evals += 1
        try:
            judge(case, st)
        except Discard as d:
            st.discards[d.why] += 1
        except Inconclusive as d:
            st.inconclusive[d.why] += 1
        except Violation as v:
            c = dict(v.detail.get("case", {}))
            st.violations.append({"case": c, "msg": v.msg})
            break
    return st


def replay_case(case):
    if "subs" in case:
        judge({"subs": case["subs"], "mode": case["mode"], "j": case["j"]}, None, attribute=False)
    else:
        judge(gen(Chooser(trace=case["trace"])), None)


def replay_file(path):
    case = json.load(open(path))
    try:
        replay_case(case)
    except Violation as v:
        print("VIOLATION property=%s replay=%s" % (PID, path))
        print(v.msg)
        return 1
    except (Discard, Inconclusive) as e:
        print("replay not conclusive: %s" % e)
        return 0
    print("replay passes")
    return 0


F27_PROGRAM = """.decl f(x:float)
f(0.0). f(-0.0). f(1.5).
.decl cnt(c:number)
.output cnt
cnt(c) :- c = count : { f(_) }.
.decl eq(x:float, y:float)
.output eq
eq(x, y) :- f(x), f(y), x = y.
"""


def probes(st):
    """known finding F27 (negative zero): excluded by construction (the generator's float pool has no -0.0), re-probed here"""
    for f in common.findings_for(PID):
        if f["key"] == "F27":
            try:
                judge({"subs": [{"text": F27_PROGRAM, "facts": {}, "prefix": "", "plain": F27_PROGRAM, "model": None, "types": None}],
                       "mode": "-c", "j": "-j1"}, None, attribute=False)
            except Violation:
                st.known_lines.append(f["what"])
            except (Discard, Inconclusive):
                st.known_lines.append(f["what"])


def main(tier, seed):
    t0 = time.time()
    total = 28 if tier == "quick" else 600
    if os.environ.get("VERIF_N"):
        total = int(os.environ["VERIF_N"])
    st = common.run_sharded(worker, seed, total, {"tier": tier}, shards=14)
    probes(st)
    extra = {"programs": st.extra.get("programs", 0), "disagreements_checked": 0}
    return common.finish(PID, tier, seed, "exploration", st, RULE, t0, replay_fn=replay_case, extra=extra,
                         assumptions=["generated C++ is compiled through the souffle-compile.py of the verification build (-O1, hooks on)",
                                      "dlref applies only to sub-programs inside its value domain; the interpreter/compiled differential applies to all"],
                         nontrivial_floor=40)
