"""C12 -- lattice relations hold one least-upper-bound value per key (the least fixpoint of the monotone rules)."""
import os, subprocess
from vlib import common, runner
from vlib.common import Violation, Discard, Inconclusive, Scratch, souffle, write_files, read_outputs
from vlib.pcheck import PCheck

PID = "C12"
RULE = ("Generated programs with 1-2 lattice relations R(k1..kn, v:L<>[, u:L<>]) (1-2 key columns, then 1-2 lattice columns with independent transfer functions; relations with NO key column are recorded finding F24 and only probed) over three finite-height "
        "lattices on a numeric subtype whose join/meet are user-defined functors from a small shared library built by the check: "
        "max (bottom -1000, top 1000), min (dual) and bit-or on 8-bit sets; seed rules from EDB relations with frequent key collisions, "
        "recursive rules over a random weighted graph applying MONOTONE transfer functions (min(v+w,cap), max(v,w), v bor w, identity), "
        "copies between lattice relations, plain reader relations in a later stratum, and (50%) look-ups that bind only part of the key (x only / y only); about 1% of the cases run in compiled mode (-c). Oracle: an independent Kleene iteration on "
        "maps key -> lattice value (join of the values of all rule instances, to the least fixpoint); required: at most one tuple per "
        "key in souffle's output, the same key set, the same value per key, and readers see exactly those values; identical at -j1 and "
        "-j4. Non-trivial = some key receives >= 3 distinct contributions over >= 2 iterations of the fixpoint; distinct by hash of "
        "the program.")

LATT = {
    "max": {"lub": "lmax", "glb": "lmin", "bot": -1000, "top": 1000},
    "min": {"lub": "lmin", "glb": "lmax", "bot": 1000, "top": -1000},
    "bor": {"lub": "lbor", "glb": "lband", "bot": 0, "top": 255},
}


def join(kind, a, b):
    return max(a, b) if kind == "max" else min(a, b) if kind == "min" else (a | b)


def libdir():
    d = os.path.join(common.ROOT, "build", "harness")
    os.makedirs(d, exist_ok=True)
    so = os.path.join(d, "libfunctors.so")
    src = os.path.join(common.ROOT, "harness", "functors.cpp")
    if not os.path.exists(so) or os.path.getmtime(so) < os.path.getmtime(src):
        subprocess.check_call(["g++", "-std=c++17", "-shared", "-fPIC", "-O1", "-fopenmp", "-I" + os.path.join(common.REPO, "src", "include"), src, "-o", so + ".tmp"])
        os.replace(so + ".tmp", so)
    return d


def transfer(kind, op, v, w, cap):
    if op == "id":
        return v
    if kind == "max":
        return min(v + w, cap) if op == "add" else max(v, w)
    if kind == "min":
        return max(v - w, -cap) if op == "add" else min(v, w)
    return (v | w) & 255


def transfer_text(kind, op, cap, v="v"):
    if op == "id":
        return v
    if kind == "max":
        return "as(min(%s + w, %d), L)" % (v, cap) if op == "add" else "as(max(%s, w), L)" % v
    if kind == "min":
        return "as(max(%s - w, %d), L)" % (v, -cap) if op == "add" else "as(min(%s, w), L)" % v
    return "as((%s bor w) band 255, L)" % v


def gen(ch):
    kind = ch.choice(["max", "min", "bor"])
    N = ch.int(3, 6)
    edges = sorted({(ch.int(0, N), ch.int(0, N), ch.int(0, 7) if kind != "bor" else 1 << ch.int(0, 6)) for _ in range(ch.int(2, 12))})
    compiled = ch.bool(0.015)      # a C++ compile per case: rare, and biased to the shapes where the synthesised indexes matter
    nk = ch.choice([2, 2, 1] if compiled else [1, 1, 2])      # (nk = 0 is known finding F24: no termination; probed separately)
    nl = ch.choice([1, 1, 2])      # number of lattice columns

    def val():
        return ch.int(0, 9) if kind == "max" else -ch.int(0, 9) if kind == "min" else 1 << ch.int(0, 6)
    seeds = sorted({(ch.int(0, N), ch.int(0, N), val(), val()) for _ in range(ch.int(1, 6))})
    cap = ch.int(10, 40)
    rules = []     # (target rel, transfer of the first lattice column, reversed edge, transfer of the second lattice column)
    nrules = ch.int(1, 3)
    for _ in range(nrules):
        rules.append(("rec", ch.choice(["add", "join", "id"]), ch.bool(0.3), ch.choice(["add", "join", "id", "id"])))
    second = ch.bool(0.4)
    partial = ch.bool(0.85 if compiled else 0.5)
    picks = sorted({ch.int(0, N) for _ in range(ch.int(1, 3))})
    return {"kind": kind, "N": N, "edges": [list(e) for e in edges], "seeds": [list(s) for s in seeds], "nk": nk, "nl": nl, "cap": cap, "rules": rules,
            "second": second, "partial": partial, "picks": picks, "compiled": compiled, "j": ch.choice(["-j1", "-j4"])}


def key_of(nk, x, y):
    return (x,) if nk == 1 else (x, y) if nk == 2 else ()


def build(case):
    L = LATT[case["kind"]]
    nk, nl = case["nk"], case.get("nl", 1)
    lines = [".type L <: number", ".functor lmax(a:L, b:L):L stateful", ".functor lmin(a:L, b:L):L stateful", ".functor lbor(a:L, b:L):L stateful", ".functor lband(a:L, b:L):L stateful",
             ".lattice L<> {\n    Bottom -> %d,\n    Top -> %d,\n    Lub -> @%s(_,_),\n    Glb -> @%s(_,_)\n}" % (L["bot"], L["top"], L["lub"], L["glb"]),
             ".decl e(x:number, y:number, w:number)"]
    lines += ["e(%d, %d, %d)." % tuple(e) for e in case["edges"]]
    lines.append(".decl s(x:number, y:number, v:number, u:number)")
    lines += ["s(%d, %d, %d, %d)." % tuple((list(s) + [s[2]])[:4]) for s in case["seeds"]]
    kd = "".join("k%d:number, " % i for i in range(nk))
    lines += [".decl r(%sv:L<>%s)" % (kd, ", u:L<>" if nl == 2 else ""), ".output r"]
    kx = {0: "", 1: "x, ", 2: "x, y, "}[nk]
    vs = "v, u" if nl == 2 else "v"
    rest = ", _" if nl == 2 else ""
    lines.append("r(%sas(v, L)%s) :- s(x, y, v, u)." % (kx, ", as(u, L)" if nl == 2 else ""))
    for rule in case["rules"]:
        op, rev = rule[1], rule[2]
        op2 = rule[3] if len(rule) > 3 else "id"
        tt = transfer_text(case["kind"], op, case["cap"])
        if nl == 2:
            tt += ", " + transfer_text(case["kind"], op2, case["cap"], "u")
        if nk == 0:
            lines.append("r(%s) :- r(%s), e(_, _, w)." % (tt, vs))
        elif nk == 1:
            lines.append("r(y, %s) :- r(x, %s), e(%s, w)." % (tt, vs, "y, x" if rev else "x, y"))
        else:
            lines.append("r(x, z, %s) :- r(x, y, %s), e(%s, w)." % (tt, vs, "z, y" if rev else "y, z"))
    if case["second"] and nk >= 1:
        lines += [".decl r2(k:number, v:L<>)", ".output r2", "r2(x, v) :- r(x, %sv%s)." % ("_, " if nk == 2 else "", rest)]
    kab = kx.replace("x", "a").replace("y", "b")
    lines += [".decl rd(%sv:number%s)" % (kd, ", u:number" if nl == 2 else ""), ".output rd", "rd(%s%s) :- r(%s%s)." % (kab, vs, kab, vs)]
    if case.get("partial") and nk >= 1:
        # look-ups that bind a proper subset of the key columns (one index per search signature in compiled mode)
        lines.append(".decl pk(a:number)")
        lines += ["pk(%d)." % a for a in case["picks"]]
        if nk == 1:
            lines += [".decl qa(v:number)", ".output qa", "qa(v) :- pk(x), r(x, v%s)." % rest]
        else:
            lines += [".decl qa(y:number, v:number)", ".output qa", "qa(y, v) :- pk(x), r(x, y, v%s)." % rest,
                      ".decl qb(x:number, v:number)", ".output qb", "qb(x, v) :- pk(y), r(x, y, v%s)." % rest]
    return "\n".join(lines) + "\n"


def model(case):
    kind, nk, cap, nl = case["kind"], case["nk"], case["cap"], case.get("nl", 1)
    R = {}
    contrib = {}

    def put(k, vals, it):
        contrib.setdefault(k, set()).add((vals, it))
        if k not in R:
            R[k] = vals
            return True
        nv = tuple(join(kind, a, b) for a, b in zip(R[k], vals))   # every lattice column is joined on its own
        if nv != R[k]:
            R[k] = nv
            return True
        return False
    for sd in case["seeds"]:
        x, y, v = sd[0], sd[1], sd[2]
        u = sd[3] if len(sd) > 3 else v
        put(key_of(nk, x, y), (v, u)[:nl], 0)
    it = 0
    changed = True
    while changed and it < 500:
        it += 1
        changed = False
        snap = dict(R)
        for rule in case["rules"]:
            op, rev = rule[1], rule[2]
            ops = (op, rule[3] if len(rule) > 3 else "id")[:nl]
            for k, vals in snap.items():
                for (a, b, w) in case["edges"]:
                    if nk == 0:
                        tgt = ()
                    elif nk == 1:
                        src, dst = (b, a) if rev else (a, b)
                        if k[0] != src:
                            continue
                        tgt = (dst,)
                    else:
                        src, dst = (b, a) if rev else (a, b)
                        if k[1] != src:
                            continue
                        tgt = (k[0], dst)
                    if put(tgt, tuple(transfer(kind, o, v, w, cap) for o, v in zip(ops, vals)), it):
                        changed = True
    return R, contrib, it


def judge(case, st=None):
    case = dict(case)
    case["rules"] = [tuple(r) for r in case["rules"]]
    prog = build(case)
    R, contrib, iters = model(case)
    nk, nl = case["nk"], case.get("nl", 1)
    compiled = bool(case.get("compiled"))
    with Scratch("c12") as d:
        write_files(d, {"p.dl": prog})
        os.makedirs(os.path.join(d, "out"), exist_ok=True)
        rr = souffle(["-D", "out", "-L" + libdir(), "-lfunctors", case["j"]] + (["-c"] if compiled else []) + ["p.dl"], cwd=d,
                     timeout=900 if compiled else 60, env={"LD_LIBRARY_PATH": libdir()})
        outs = read_outputs(os.path.join(d, "out"))
    if rr.timeout:
        raise Inconclusive("timeout" + (":compiled" if compiled else ""))
    if rr.rc != 0:
        raise Violation("souffle failed on a lattice program: rc=%s\n%s" % (rr.rc, rr.err[-1200:]), {"case": case, "program": prog})
    msgs = []
    for name in ("r", "rd"):
        rows = [tuple(int(x) for x in ln.split("\t")) for ln in (outs.get(name) or [])]
        got = {}
        for t in rows:
            k, v = t[:nk], t[nk:]
            if k in got:
                msgs.append("%s holds two tuples for key %r: values %r and %r" % (name, k, got[k], v))
            got[k] = v
        if set(got) != set(R):
            msgs.append("%s: keys missing %r, spurious %r" % (name, sorted(set(R) - set(got))[:5], sorted(set(got) - set(R))[:5]))
        bad = [(k, got[k], R[k]) for k in sorted(got) if k in R and got[k] != R[k]]
        if bad:
            msgs.append("%s: value differs from the least fixpoint (key, souffle, expected): %r" % (name, bad[:6]))
    if case["second"] and nk >= 1:
        rows = [tuple(int(x) for x in ln.split("\t")) for ln in (outs.get("r2") or [])]
        want = {}
        for k, v in R.items():
            want[k[0]] = join(case["kind"], want[k[0]], v[0]) if k[0] in want else v[0]
        got = {}
        for (k, v) in rows:
            if k in got:
                msgs.append("r2 holds two tuples for key %r" % k)
            got[k] = v
        if got != want:
            msgs.append("r2 (join over the second key) = %r, expected %r" % (sorted(got.items())[:6], sorted(want.items())[:6]))
    if case.get("partial") and nk >= 1:
        picks = set(case["picks"])
        wants = {"qa": ({(v[0],) for k, v in R.items() if k[0] in picks} if nk == 1 else {(k[1], v[0]) for k, v in R.items() if k[0] in picks})}
        if nk == 2:
            wants["qb"] = {(k[0], v[0]) for k, v in R.items() if k[1] in picks}
        for name, want in wants.items():
            got = {tuple(int(x) for x in ln.split("\t")) for ln in (outs.get(name) or [])}
            if got != want:
                msgs.append("%s (look-up binding part of the key): missing %r spurious %r" % (name, sorted(want - got)[:5], sorted(got - want)[:5]))
    if msgs:
        raise Violation("lattice relation is not the least fixpoint%s:\n" % (" (compiled mode)" if compiled else "") + "\n".join(msgs[:8]) + "\n" + prog, {"case": case})
    if st is not None:
        rich = any(len({v for v, _ in c}) >= 3 and len({i for _, i in c}) >= 2 for c in contrib.values())
        if compiled:
            st.classes["compiled_mode"] += 1
        if rich:
            st.nontrivial.add(common.h(prog))
            st.classes["lattice:" + case["kind"]] += 1
            st.classes["keys=%d" % nk] += 1
            st.classes["lattice_columns=%d" % nl] += 1
            if nl == 2 and any(len({v[0] for v, _ in c}) >= 2 and len({v[1] for v, _ in c}) >= 2 and
                               any(a[0] != b[0] and a[1] == b[1] for a, _ in c for b, _ in c) for c in contrib.values()):
                st.classes["two_columns:one_changes_while_the_other_stays"] += 1
            if case.get("partial"):
                st.classes["partial_key_lookups"] += 1
            st.sample({"program": prog, "fixpoint": {repr(k): v for k, v in sorted(R.items())[:8]}, "iterations": iters})
        else:
            st.classes["trivial"] += 1


F24_PROGRAM = """.type L <: number
.functor lmax(a:L, b:L):L stateful
.functor lmin(a:L, b:L):L stateful
.lattice L<> {
    Bottom -> 1000,
    Top -> -1000,
    Lub -> @lmin(_,_),
    Glb -> @lmax(_,_)
}
.decl e(w:number)
e(4). e(0).
.decl r(v:L<>)
.output r
r(-9). r(-3).
r(as(max(v - w, -22), L)) :- r(v), e(w).
"""


def probes(st, tier, seed):
    for f in common.findings_for(PID):
        if f["key"] == "F24":
            with Scratch("c12p") as d:
                write_files(d, {"p.dl": F24_PROGRAM})
                os.makedirs(os.path.join(d, "out"), exist_ok=True)
                rr = souffle(["-D", "out", "-L" + libdir(), "-lfunctors", "p.dl"], cwd=d, timeout=15)
                got = read_outputs(os.path.join(d, "out")).get("r")
            if rr.timeout or rr.rc != 0 or got != ["-22"]:
                st.known_lines.append(f["what"])


CHECK = PCheck(PID, RULE, gen, judge, quick=1200, thorough=30000, floor=60, probes=probes,
               assumptions=["interpreter back end (functors loaded through libffi) except for the ~1% compiled cases", "only monotone transfer functions are generated (the least fixpoint is then unique)"])
main, replay_file = CHECK.main, CHECK.replay_file
