"""C14 -- arbitrary program text never crashes (or hangs) the compiler."""
import os, re, glob, json
from vlib import dlgen, runner, common
from vlib.common import Violation, Discard, Inconclusive, Scratch, souffle, write_files
from vlib.pcheck import PCheck

PID = "C14"
RULE = ("Program text from three generators: (a) token-level mutations (delete / duplicate / swap / replace by a dictionary token of "
        "every lexer keyword, directive, qualifier and punctuation / splice two programs) of valid programs -- the repository's own "
        "tests/**/*.dl that need no preprocessor (<= 6 KB) and dlgen programs; (b) byte-level mutations (bit flips, truncation, NUL and "
        "high bytes, very long identifiers and numbers, deep nesting) and structured excursions (one quoted string grown to 300 / 5 000 / "
        "70 000 characters, one numeric literal replaced by a boundary form: 40-digit numbers, floats beyond the float range or below "
        "the smallest float, 2^31, 2^32, 2^64; line markers `#line n \"f\"` / `# n \"f\" 1|2` are dictionary tokens); (c) near-valid programs: dlgen programs with one injected "
        "semantic defect plus token mutations. Each input runs the front end (`--show=transformed-ram`: parse, semantic checks, all "
        "AST passes, AST->RAM, all RAM passes; no evaluation) under one of {default, --magic-transform=*, -t explain, -p <file>, "
        "--disable-transformers=...}, and in 1 of 4 cases also the full evaluation. Oracle: exit status 0 or 1 (1 with a "
        "diagnostic); never a signal, a failed assertion, `terminate called`, or an internal-error abort; front end finishes within "
        "20 s (normal: < 0.1 s), confirmed by three replays; evaluation time-outs are inconclusive; SIGFPE of a generated x/0 is the "
        "program's own error. Failures whose signature (source file + assertion text) is a recorded finding are counted and excluded. "
        "Non-trivial = the input differs from its corpus file and reaches beyond the scanner (accepted, semantic error, or a located "
        "syntax error past line 1); distinct by hash of the text.")

DICT = [".decl", ".type", ".input", ".output", ".printsize", ".limitsize", ".comp", ".init", ".functor", ".plan", ".pragma", ".override",
        ".number_type", ".symbol_type", ".lattice", ":-", "<=", ":", ";", ",", ".", "(", ")", "[", "]", "{", "}", "<", ">", "=", "!=", ">=",
        "!", "_", "$", "|", "<:", "+", "-", "*", "/", "%", "^", "band", "bor", "bxor", "bnot", "bshl", "bshr", "bshru", "land", "lor", "lxor",
        "lnot", "nil", "count", "sum", "min", "max", "mean", "range", "cat", "ord", "strlen", "substr", "to_number", "to_string", "to_float",
        "to_unsigned", "match", "contains", "as", "autoinc", "true", "false", "number", "symbol", "unsigned", "float", "inline", "no_inline",
        "magic", "no_magic", "brie", "btree", "btree_delete", "eqrel", "overridable", "choice-domain", "stateful", "debug_delta", "IO", "x", "r0",
        "0", "1", "-1", "2147483648", "4294967296", "0x7fffffff", "0b1", "1.5", "\"a\"", "\"", "//", "/*", "*/", "\n", "#",
        "\n#line 7 \"f.dl\"\n", "\n# 3 \"g.dl\" 1\n", "\n# 9 \"f.dl\" 2\n"]
TOK = re.compile(r'"(?:[^"\\]|\\.)*"|\.[A-Za-z_]+|[A-Za-z_][A-Za-z_0-9]*|[0-9]+(?:\.[0-9]+)?|:-|<=|>=|!=|<:|\s+|.', re.S)
VARIANTS = [[], ["--magic-transform=*"], ["-t", "explain"], ["-p", "prof.json"], ["--disable-transformers=RemoveRedundantRelationsTransformer"],
            ["-j4"], ["--magic-transform=*", "-t", "explain"]]
_CORPUS = None


def corpus():
    global _CORPUS
    if _CORPUS is None:
        files = []
        for f in sorted(glob.glob(os.path.join(common.REPO, "tests", "**", "*.dl"), recursive=True)):
            try:
                if os.path.getsize(f) > 6000:
                    continue
                t = open(f, encoding="utf-8", errors="surrogateescape").read()
            except OSError:
                continue
            if "#include" in t or "#define" in t or "#if" in t:
                continue
            files.append((os.path.relpath(f, common.REPO), t))
        _CORPUS = files
    return _CORPUS


def mutate_tokens(ch, text, n):
    toks = TOK.findall(text)
    if not toks:
        return text
    for _ in range(n):
        if not toks:
            break
        k = ch.int(0, 5)
        i = ch.int(0, len(toks) - 1)
        if k == 0:
            del toks[i]
        elif k == 1:
            toks.insert(i, toks[i])
        elif k == 2:
            j = ch.int(0, len(toks) - 1)
            toks[i], toks[j] = toks[j], toks[i]
        elif k == 3:
            toks[i] = ch.choice(DICT)
        elif k == 4:
            toks.insert(i, ch.choice(DICT))
        else:
            j = ch.int(i, min(len(toks) - 1, i + ch.int(1, 12)))
            seg = toks[i:j + 1]
            p = ch.int(0, len(toks) - 1)
            toks[p:p] = seg
    return "".join(toks)


NUM_FORMS = ["9" * 40, "9" * 40 + ".5", "0." + "0" * 50 + "1", "4294967296", "2147483648", "-2147483649", "18446744073709551616",
             "340282350000000000000000000000000000000.0", "3402823500000000000000000000000000000000.0", "0x100000000", "0b" + "1" * 33]


def mutate_structured(ch, text):
    """grow one quoted string to thousands of characters, or replace one numeric literal by a boundary form"""
    import re as _r
    if ch.bool(0.5):
        qs = [m for m in _r.finditer(r'"[^"\n]*"', text)]
        if qs:
            m = ch.choice(qs)
            k = ch.choice([300, 5000, 70000])
            return text[:m.end() - 1] + "a" * k + text[m.end() - 1:]
    ns = [m for m in _r.finditer(r'(?<![A-Za-z_0-9.])[0-9]+(\.[0-9]+)?(?![A-Za-z_0-9.])', text)]
    fl = [m for m in ns if "." in m.group(0)]
    if fl and ch.bool(0.6):
        # a float literal (float context) beyond the float range / below the smallest float
        m = ch.choice(fl)
        return text[:m.start()] + ch.choice(["3402823500000000000000000000000000000000.0", "1" + "0" * 45 + ".5", "0." + "0" * 50 + "1",
                                              "9" * 39 + ".0"]) + text[m.end():]
    if ns:
        m = ch.choice(ns)
        return text[:m.start()] + ch.choice(NUM_FORMS) + text[m.end():]
    return text


def mutate_bytes(ch, text, n):
    if ch.bool(0.15):
        text = mutate_structured(ch, text)
    b = bytearray(text.encode("utf-8", "surrogateescape"))
    for _ in range(n):
        k = ch.int(0, 6)
        if not b:
            b = bytearray(b"a")
        i = ch.int(0, len(b) - 1)
        if k == 0:
            b[i] ^= 1 << ch.int(0, 7)
        elif k == 1:
            del b[i:]
        elif k == 2:
            b[i:i] = bytes([ch.choice([0, 255, 128, 0xC3, 0x28, 10, 13, 9, 34, 92])])
        elif k == 3:
            b[i:i] = b"a" * ch.choice([300, 2000])
        elif k == 4:
            b[i:i] = b"9" * ch.choice([20, 40, 400])
        elif k == 5:
            d = ch.choice([50, 200, 400])
            op, cl = ch.choice([("(", ")"), ("[", "]"), ("-(", ")"), ("!", "")])
            b[i:i] = (op * d + "1" + cl * d).encode()
        else:
            del b[i:i + ch.int(1, 20)]
    return b.decode("utf-8", "surrogateescape")


def gen(ch):
    cp = corpus()
    kind = ch.weighted([(5, "tok_repo"), (3, "tok_dlgen"), (2, "bytes"), (2, "near_valid"), (1, "splice")])
    origin = None
    if kind in ("tok_repo", "bytes", "splice") and cp:
        name, text = cp[ch.int(0, len(cp) - 1)]
        origin = name
        if kind == "splice":
            name2, text2 = cp[ch.int(0, len(cp) - 1)]
            cut1 = ch.int(0, max(0, len(text) - 1))
            cut2 = ch.int(0, max(0, len(text2) - 1))
            text = text[:cut1] + text2[cut2:]
            origin += "+" + name2
        elif kind == "bytes":
            text = mutate_bytes(ch, text, ch.int(1, 3))
        else:
            text = mutate_tokens(ch, text, ch.int(1, 4))
            if ch.bool(0.12):
                text = mutate_structured(ch, text)
    else:
        P = dlgen.generate(ch, dlgen.Feat())
        if kind == "near_valid":
            from checks import c13
            c13.inject(P, ch)
        text, _ = dlgen.to_souffle(P)
        text = mutate_tokens(ch, text, ch.int(0 if kind == "near_valid" else 1, 3))
        if ch.bool(0.15):
            text = mutate_structured(ch, text)
        origin = "dlgen"
    variant = ch.choice(VARIANTS)
    return {"text": text, "variant": variant, "kind": kind, "origin": origin, "full": ch.bool(0.25)}


ASSERT_RE = re.compile(r"([A-Za-z0-9_]+\.(?:cpp|h|hpp)):\d+: .*?Assertion [`'](.*?)' failed", re.S)


def signature(rr, hang=False, text=""):
    """root-cause signature of a crash: source file + assertion text (line numbers are left out on purpose); `fatal()` aborts are
    keyed by their message; silent signals and hangs have nothing to key on and are tied to the exact input text"""
    if hang:
        return "hang|" + common.h(text)
    m = ASSERT_RE.search(rr.err)
    if m:
        if "fatal error; see std err" in m.group(2):
            lines = rr.err.split("\n")
            idx = [i for i, l in enumerate(lines) if "Assertion" in l and "fatal error" in l]
            prev = [l for l in lines[:idx[0]] if l.strip()] if idx else []
            msg = prev[-1] if prev else ""
            return "fatal|" + re.sub(r"[0-9]+", "N", re.sub(r"`.*?`|'.*?'", "Q", msg))[:120]
        return "%s|%s" % (m.group(1), re.sub(r"\s+", " ", m.group(2))[:160])
    m = re.search(r"terminate called after throwing an instance of '([^']+)'\s*(?:what\(\):\s*(.*))?", rr.err)
    if m:
        what = (m.group(2) or "").strip().split("[")[0]
        return "terminate|%s|%s" % (m.group(1), what[:80])
    m = re.search(r"(fatal|Fatal|FATAL|internal error|unreachable|unhandled|Unhandled)[^\n]{0,120}", rr.err)
    if m:
        return "abort|" + re.sub(r"\d+", "N", m.group(0))[:140]
    return "signal%s|%s" % (rr.signal, common.h(text))


def deep_signature(case, stage, rr, hang):
    """silent signals and hangs carry no message: derive a root-cause signature from a debugger backtrace (top souffle frames) resp.
    from the transformers that keep reporting [changed] in the -v log; falls back to the exact input text"""
    args = ["--show=transformed-ram"] if stage == "front end" else ["-D", "out"]
    with Scratch("c14s") as d:
        write_files(d, {"p.dl": case["text"].encode("utf-8", "surrogateescape")})
        os.makedirs(os.path.join(d, "out"), exist_ok=True)
        if hang:
            r = common.run([common.SOUFFLE, "--no-preprocessor", "-v"] + args + list(case["variant"]) + ["p.dl"], cwd=d, timeout=8)
            names = re.findall(r"^([A-Za-z]+(?:Transformer|Checker|Analysis)?) time: .*\[changed\]", r.out, re.M)
            tail = sorted(set(names[-12:]))
            if tail:
                return "hang|still changing: " + ",".join(tail)[:150]
            return "hang|" + common.h(case["text"])
        r = common.run(["gdb", "-batch", "-ex", "run", "-ex", "bt 12", "--args", common.SOUFFLE, "--no-preprocessor"] + args +
                       list(case["variant"]) + ["p.dl"], cwd=d, timeout=120)
        frames = []
        for ln in r.out.split("\n"):
            m = re.match(r"#\d+\s+(?:0x[0-9a-f]+ in )?(.*)", ln)
            if m:
                f = re.sub(r"\(.*", "", m.group(1))
                f = re.sub(r"<.*", "", f)
                names = re.findall(r"[A-Za-z_]+::[A-Za-z_~]+", f)
                if names:
                    frames.append(names[-1])
        frames = [f for f in frames if not f.startswith("std::")][:4]
        if frames:
            return "signal%s|at " + " < ".join(frames) if False else "signal%s|at %s" % (rr.signal, " < ".join(frames))
        return "signal%s|%s" % (rr.signal, common.h(case["text"]))


def known_sig(sig):
    for f in common.findings_for(PID):
        if f.get("sig") == sig:
            return f
    return None


def run_text(text, args, timeout, full=False):
    with Scratch("c14") as d:
        write_files(d, {"p.dl": text.encode("utf-8", "surrogateescape")})
        os.makedirs(os.path.join(d, "out"), exist_ok=True)
        if full:
            return souffle(["-D", "out"] + list(args) + ["p.dl"], cwd=d, timeout=timeout)
        return souffle(["--show=transformed-ram"] + list(args) + ["p.dl"], cwd=d, timeout=timeout)


def classify(case, rr, stage, st):
    if rr.timeout:
        if stage == "evaluation":
            raise Inconclusive("timeout:evaluation")
        sig = deep_signature(case, stage, rr, True)
        kf = known_sig(sig)
        if kf:
            if st is not None:
                st.known[kf["key"]] += 1
            raise Discard("known:" + kf["key"])
        raise Violation("the front end did not finish within 20 s (stage %s, args %r)" % (stage, case["variant"]), {"case": case, "sig": sig})
    if rr.rc in (126, 127) and not rr.err.strip().startswith("souffle"):
        raise Inconclusive("exec_failed")     # the binary could not be started (e.g. it is being relinked): not a verdict
    bad = (rr.rc is not None and rr.rc < 0 and not (stage == "evaluation" and rr.signal == 8)) or rr.rc not in (0, 1, None) and rr.rc >= 0 \
        or "Assertion" in rr.err or "terminate called" in rr.err
    if stage == "evaluation" and rr.rc is not None and rr.rc > 1 and "Assertion" not in rr.err:
        bad = False   # e.g. souffle's own signal handler reports an arithmetic error of the program with another status
    if bad:
        sig = signature(rr, text=case["text"])
        if sig.startswith("signal"):
            sig = deep_signature(case, stage, rr, False)
        kf = known_sig(sig)
        if kf:
            if st is not None:
                st.known[kf["key"]] += 1
            raise Discard("known:" + kf["key"])
        raise Violation("souffle died (%s, args %r): rc=%s signature=%s\n%s" % (stage, case["variant"], rr.rc, sig, rr.err[-900:]),
                        {"case": case, "sig": sig})
    if rr.rc == 1 and not rr.err.strip() and not rr.out.strip():
        raise Violation("exit status 1 without any diagnostic (%s)" % stage, {"case": case})


def judge(case, st=None):
    rr = run_text(case["text"], case["variant"], 20)
    classify(case, rr, "front end", st)
    accepted = rr.rc == 0
    if accepted and case["full"]:
        r2 = run_text(case["text"], [a for a in case["variant"] if a != "-p" and a != "prof.json"], 20, full=True)
        classify(case, r2, "evaluation", st)
    if st is not None:
        err = rr.err
        if accepted:
            cls = "accepted"
        elif "syntax error" in err or "unexpected" in err:
            m = re.search(r"line (\d+)", err)
            cls = "syntax_error_located" if (m and int(m.group(1)) > 1) else "syntax_error_line1"
        else:
            cls = "semantic_error"
        st.classes[cls] += 1
        st.classes["gen:" + case["kind"]] += 1
        if cls != "syntax_error_line1":
            st.nontrivial.add(common.h(case["text"]))
            if len(st.samples) < 4 and cls != "syntax_error_located":
                st.samples.append({"kind": case["kind"], "origin": case["origin"], "variant": case["variant"], "verdict": cls, "text": case["text"][:1500]})


def known_match(case, v):
    m = re.search(r"signature=(.*)", v["msg"])
    if m:
        return known_sig(m.group(1).strip())
    return None


def probes(st, tier, seed):
    for f in common.findings_for(PID):
        path = os.path.join(common.ROOT, f.get("input", ""))
        if not os.path.isfile(path):
            continue
        case = json.load(open(path))
        try:
            judge(case, None)
        except Discard:
            st.known_lines.append(f["what"])
        except (Violation, Inconclusive):
            st.known_lines.append(f["what"])
    # regression tier: saved inputs of findings that were repaired since (no longer listed) must be handled cleanly
    import glob
    listed = {f.get("input") for f in common.findings_for(PID)}
    for path in sorted(glob.glob(os.path.join(common.ROOT, "corpus", PID, "*.json"))):
        if os.path.relpath(path, common.ROOT) in listed:
            continue
        case = json.load(open(path))
        st.classes["regression_inputs_of_repaired_findings"] += 1
        try:
            judge(case, None)
        except Violation as v:
            st.violations.append({"case": case, "msg": v.msg})
        except (Discard, Inconclusive):
            pass


CHECK = PCheck(PID, RULE, gen, judge, quick=6000, thorough=200000, floor=500, known_match=known_match, probes=probes, corpus=False,
               assumptions=["out of process through the real binary (--no-preprocessor)", "resource exhaustion by construction (multi-megabyte inputs, thousand-level nesting) is out of scope",
                            "recorded assertion signatures are excluded and re-probed"])
main, replay_file = CHECK.main, CHECK.replay_file
