"""C19 -- provenance is faithful: same results, and every explanation is a valid proof tree."""
import os, re, json
from vlib import dlgen, dlref, runner, common
from vlib.common import Violation, Discard, Inconclusive, Scratch, souffle, write_files, read_outputs
from vlib.dlgen import Atom, Neg, Cmp, Var, Const, Fn, Wild, NUMBER
from vlib.refops import OutOfDomain, compare
from vlib.pcheck import PCheck
from vlib.hyp import Chooser

PID = "C19"
RULE = ("Recursion workloads of the provenance-supported fragment (random graph EDB; linear / left-linear / non-linear transitive closure, "
        "bounded counters with arithmetic in the head, mutual recursion, same-generation, reachability with negated lower-stratum "
        "atoms and comparison constraints; several rules per relation), run with `-t explain` (stdin-driven: format json, setdepth, "
        "`explain R(t)` for up to 40 output tuples of every output relation and for generated non-members). Oracle: (1) the output "
        "relations with -t explain equal those without; (2) an independent proof checker validates every returned tree against the "
        "GENERATOR'S OWN AST: the node's rule number selects a rule text of the answer's rule list, which selects the clause(s) of the relation with the same positive body atoms; the positive-atom children unify with "
        "the clause's positive body atoms under one substitution theta, head*theta equals the node's tuple, every negated literal*theta "
        "is absent from the final result, every constraint*theta evaluates to true, listed negations are instances of the clause's, no extra children; "
        "sub-trees are checked recursively, leaves must be EDB facts; (3) non-members yield `Tuple not found`. Non-trivial = a proof "
        "of height >= 3 using >= 2 distinct rules, or one containing a negated / constraint leaf; distinct by hash of (program, tuple).")

ATOM_RE = re.compile(r"^(!?)([A-Za-z_][A-Za-z_0-9]*)\((.*)\)$")


def gen(ch):
    P = dlgen.gen_recursive(ch, max_nodes=8, max_edges=14, npatterns=(1, 3), rich_filters=True)
    for n in P.order:
        P.rels[n].from_file = False
    text, facts = dlgen.to_souffle(P)
    nonmembers = [[ch.int(0, 14) for _ in range(3)] for _ in range(5)]   # (the explain prompt does not read negative literals)
    return {"program": text, "facts": facts, "nonmembers": nonmembers, "_P": P}


def parse_atom(s):
    m = ATOM_RE.match(s.strip())
    if not m:
        return None
    neg, rel, args = m.groups()
    vals = tuple(int(a.strip()) for a in args.split(",")) if args.strip() else ()
    return bool(neg), rel, vals


def unify(term, val, theta):
    if isinstance(term, Wild):
        return theta
    if isinstance(term, Var):
        if term.name in theta:
            return theta if theta[term.name] == val else None
        t = dict(theta)
        t[term.name] = val
        return t
    if isinstance(term, Const):
        return theta if term.val == val else None
    try:
        return theta if dlref.eval_term(term, theta) == val else None
    except (KeyError, OutOfDomain):
        return None


class ProofError(Exception):
    pass


def check_node(P, final, node, stats, depth=1, cited=None):
    """returns height; raises ProofError. Rule numbers refer to souffle's clause list AFTER its transformations (the `rules` array of
    the answer); the node must instantiate a clause of the relation whose positive body atoms are those of the cited rule text."""
    if "axiom" in node or cited is None:
        return check_node_with(P, final, node, stats, depth, cited, None)
    prem = parse_atom(node.get("premises", ""))
    if prem is None:
        raise ProofError("bad premise %r" % node.get("premises"))
    rel = prem[1]
    text = cited.get((rel, node.get("rule-number", "")))
    if text is None:
        raise ProofError("%s cites %r, which is not in the rules list of the answer" % (node["premises"], node.get("rule-number")))
    body = text.split(":-", 1)[1] if ":-" in text else ""
    names = [m.group(2) for m in re.finditer(r"(!?)\s*([A-Za-z_][A-Za-z_0-9]*)\(", body) if not m.group(1)]
    if not text.strip().startswith(rel + "("):
        raise ProofError("%s cites a rule of another relation: %r" % (node["premises"], text[:80]))
    errors = []
    for idx, rule in enumerate(P.rules_of(rel)):
        pos_names = [l.rel for l in rule.body if isinstance(l, Atom)]
        if pos_names != names:
            continue
        try:
            return check_node_with(P, final, node, stats, depth, cited, rule)
        except ProofError as ex:
            errors.append(str(ex))
    raise ProofError(errors[0] if errors else "%s: no clause of %s has the positive body atoms %r of the cited rule" % (node["premises"], rel, names))


def check_node_with(P, final, node, stats, depth, cited, rule):
    if "axiom" in node:
        a = parse_atom(node["axiom"])
        if a is None or a[0]:
            raise ProofError("a proof (sub)tree root is not a positive atom: %r" % node["axiom"])
        _, rel, vals = a
        if rel in P.rels and P.rels[rel].kind == "idb" and not P.rules_of(rel):
            raise ProofError("leaf %r of a rule-defined relation" % node["axiom"])
        if rel not in P.rels or P.rels[rel].kind != "edb":
            raise ProofError("leaf %r is not an input fact relation" % node["axiom"])
        if vals not in set(P.rels[rel].facts):
            raise ProofError("leaf %r is not a fact" % node["axiom"])
        return 1
    prem = parse_atom(node["premises"])
    if prem is None or prem[0]:
        raise ProofError("bad premise %r" % node["premises"])
    _, rel, vals = prem
    m = re.match(r"\(R(\d+)\)", node.get("rule-number", ""))
    if not m:
        raise ProofError("node without rule number: %r" % node)
    k = int(m.group(1))
    stats["rules"].add((rel, k))
    pos = [l for l in rule.body if isinstance(l, Atom)]
    negs = [l for l in rule.body if isinstance(l, Neg)]
    cons = [l for l in rule.body if isinstance(l, Cmp)]
    children = node.get("children", [])
    # (literals the optimiser proved trivially true -- e.g. the negation of an empty relation -- may be omitted from the tree)
    if not (len(pos) <= len(children) <= len(pos) + len(negs) + len(cons)):
        raise ProofError("%s by R%d: %d children, the clause has %d positive atoms and %d body literals" % (
            node["premises"], k, len(children), len(pos), len(rule.body)))
    pos_children = children[:len(pos)]
    theta = {}
    for atom, ch_ in zip(pos, pos_children):
        text = ch_.get("premises", ch_.get("axiom"))
        a = parse_atom(text) if text else None
        if a is not None and a[1] != atom.rel and a[1] in final and final.get(a[1]) == final.get(atom.rel):
            a = (a[0], atom.rel, a[2])     # merged twin relation (identical contents)
        if a is None or a[0] or a[1] != atom.rel or len(a[2]) != len(atom.args):
            raise ProofError("%s by R%d: child %r does not instantiate body atom %s" % (node["premises"], k, text, dlgen.fmt_lit(atom)))
        for t, v in zip(atom.args, a[2]):
            theta = unify(t, v, theta)
            if theta is None:
                raise ProofError("%s by R%d: child %r is not an instance of body atom %s under one substitution" % (node["premises"], k, text, dlgen.fmt_lit(atom)))
    try:
        head = tuple(dlref.eval_term(t, theta) for t in rule.head.args)
    except (KeyError, OutOfDomain) as ex:
        raise ProofError("%s by R%d: head cannot be instantiated from the children (%s)" % (node["premises"], k, ex))
    if head != vals:
        raise ProofError("%s by R%d: the clause instantiated by the children derives %r instead" % (node["premises"], k, head))
    rest = [c.get("axiom") for c in children[len(pos):]]
    if any(r is None for r in rest):
        raise ProofError("%s by R%d: a negation/constraint child is not a leaf" % (node["premises"], k))
    rest_atoms = [parse_atom(r) for r in rest]
    for n in negs:
        try:
            inst = tuple(dlref.eval_term(t, theta) if not isinstance(t, Wild) else None for t in n.atom.args)
        except (KeyError, OutOfDomain):
            raise ProofError("negated literal not ground under theta")
        present = any(all(x is None or x == y for x, y in zip(inst, tup)) for tup in final.get(n.atom.rel, ()))
        if present:
            raise ProofError("%s by R%d: negated literal !%s%r holds in the final result" % (node["premises"], k, n.atom.rel, inst))
        if any(a is not None and a[0] and a[1] == n.atom.rel and all(x is None or x == y for x, y in zip(inst, a[2])) for a in rest_atoms):
            stats["negleaf"] = True
    for c in cons:
        try:
            ok = compare(c.op, dlgen.tname(c.ty), dlref.eval_term(c.lhs, theta), dlref.eval_term(c.rhs, theta))
        except (KeyError, OutOfDomain):
            raise ProofError("constraint not ground under theta")
        if not ok:
            raise ProofError("%s by R%d: constraint %s is false under the substitution of the children" % (node["premises"], k, dlgen.fmt_lit(c)))
        stats["consleaf"] = True
    nlisted_cons = sum(1 for a in rest_atoms if a is None)
    if nlisted_cons > len(cons) or len(rest) - nlisted_cons > len(negs):
        raise ProofError("%s by R%d: children list %d constraints / %d negations, the clause has only %d / %d" % (
            node["premises"], k, nlisted_cons, len(rest) - nlisted_cons, len(cons), len(negs)))
    # every listed negation must be an instance of one of the clause's negated literals
    for a in rest_atoms:
        if a is not None:
            ok = False
            for n in negs:
                try:
                    inst = tuple(dlref.eval_term(t, theta) if not isinstance(t, Wild) else None for t in n.atom.args)
                except (KeyError, OutOfDomain):
                    continue
                # (program minimisation merges relations with identical definitions, e.g. two input relations holding the same
                # facts; the tree may then name the merged twin)
                same_rel = a[1] == n.atom.rel or (a[1] in final and final.get(a[1]) == final.get(n.atom.rel))
                if a[0] and same_rel and all(x is None or x == y for x, y in zip(inst, a[2])):
                    ok = True
            if not ok:
                raise ProofError("%s by R%d: listed leaf %r is no instance of a negated literal of the clause" % (node["premises"], k, a))
    h = 1
    for atom, ch_ in zip(pos, pos_children):
        h = max(h, 1 + check_node(P, final, ch_, stats, depth + 1, cited))
    return h


def parse_stream(text):
    dec = json.JSONDecoder()
    out, i = [], 0
    text = text.replace("\t", " ")
    while True:
        j = text.find("{", i)
        if j < 0:
            break
        try:
            obj, end = dec.raw_decode(text, j)
        except ValueError:
            break
        out.append(obj)
        i = end
    return out


def judge(case, st=None):
    P = case.get("_P") or gen(Chooser(trace=case["trace"]))["_P"]
    pub = {k: v for k, v in case.items() if k != "_P"}
    a = runner.run_program(case["program"], case["facts"])
    runner.classify_failure(a, "plain", pub)
    outs = {n: a.outputs.get(n) or [] for n in P.order if P.rels[n].output}
    final = {}
    for n, lines in outs.items():
        final[n] = {tuple(int(x) for x in ln.split("\t")) for ln in lines}
    for n in P.order:
        if P.rels[n].kind == "edb":
            final[n] = set(P.rels[n].facts)
    queries = []
    for n in sorted(outs):
        for tup in sorted(final[n])[:40]:
            queries.append((n, tup, True))
    idb = sorted(outs)
    for i, nm in enumerate(case["nonmembers"]):
        n = idb[i % len(idb)]
        tup = tuple(nm[:len(P.rels[n].types)])
        if tup not in final[n]:
            queries.append((n, tup, False))
    script = "format json\nsetdepth 60\n" + "".join("explain %s(%s)\n" % (n, ", ".join(map(str, t))) for n, t, _ in queries) + "exit\n"
    with Scratch("c19") as d:
        write_files(d, {"p.dl": case["program"]})
        os.makedirs(os.path.join(d, "out"), exist_ok=True)
        rr = souffle(["-t", "explain", "-D", "out", "p.dl"], cwd=d, timeout=60, stdin_data=script.encode())
        pouts = read_outputs(os.path.join(d, "out"))
    if rr.timeout:
        raise Inconclusive("timeout:explain")
    if rr.rc != 0:
        raise Violation("the run with -t explain failed: rc=%s\n%s" % (rr.rc, rr.err[-1200:]), {"case": pub})
    msgs = runner.compare_outputs({n: outs[n] for n in outs}, {n: pouts.get(n) for n in outs}, la="plain", lb="-t explain")
    if msgs:
        raise Violation("output relations change under provenance:\n" + "\n".join(msgs[:6]), {"case": pub})
    objs = parse_stream(rr.out)
    if len(objs) != len(queries):
        raise Violation("%d explain queries but %d answers; tail of stdout: %r" % (len(queries), len(objs), rr.out[-400:]), {"case": pub})
    nt = []
    for (n, tup, member), obj in zip(queries, objs):
        proof = obj.get("proof", {})
        label = "%s(%s)" % (n, ", ".join(map(str, tup)))
        if not member:
            if proof.get("axiom") != "Tuple not found":
                raise Violation("explain %s: the tuple is not in the result but an explanation was given: %r" % (label, proof), {"case": pub})
            continue
        if proof.get("axiom") == "Tuple not found":
            raise Violation("explain %s: the tuple is in the output but reported as not found" % label, {"case": pub})
        prem = parse_atom(proof.get("premises", ""))
        if prem is None or prem[1] != n or prem[2] != tup:
            raise Violation("explain %s: the proof is for %r" % (label, proof.get("premises")), {"case": pub})
        stats = {"rules": set(), "negleaf": False, "consleaf": False}
        try:
            cited = {(r.get("rule", "").strip().split("(", 1)[0], r.get("rule-number")): r.get("rule", "") for r in obj.get("rules", [])}
            h = check_node(P, final, proof, stats, 1, cited)
        except ProofError as ex:
            raise Violation("explain %s returned an invalid proof tree: %s\n%s" % (label, ex, json.dumps(proof)[:900]), {"case": pub})
        if (h >= 3 and len(stats["rules"]) >= 2) or stats["negleaf"] or stats["consleaf"]:
            nt.append((label, h))
    if st is not None:
        st.extra["proofs_checked"] = st.extra.get("proofs_checked", 0) + sum(1 for q in queries if q[2])
        st.extra["non_member_queries"] = st.extra.get("non_member_queries", 0) + sum(1 for q in queries if not q[2])
        if nt:
            for label, h in nt:
                st.nontrivial.add(common.h(case["program"] + label))
            st.classes["programs_with_deep_or_negated_proofs"] += 1
            st.classes["max_height>=5"] += 1 if max(h for _, h in nt) >= 5 else 0
            st.sample({"program": case["program"], "a_checked_query": nt[0][0], "height": nt[0][1]})
        else:
            st.classes["trivial"] += 1


class Check(PCheck):
    def worker(self, shard, seed, n, params):
        from vlib.common import Stats
        from vlib.hyp import hyp_run
        st = Stats()

        def prop(ch):
            case = self.gen(ch)
            st.evals += 1
            self.judge(case, st)
        hyp_run(prop, seed, n, st)
        return st


CHECK = Check(PID, RULE, gen, judge, quick=500, thorough=15000, floor=300,
              assumptions=["interpreter back end (compiled explain in the thorough tier is not built)", "fragment without aggregates / records / eqrel",
                           "rule numbers are taken to be the source order of a relation's clauses"])
main, replay_file = CHECK.main, CHECK.replay_file
