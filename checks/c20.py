"""C20 -- profiling is transparent and the profile reports the true relation sizes."""
import os, re
from vlib import dlgen, runner, common
from vlib.common import Violation, Discard, Inconclusive, Scratch, souffle, write_files, read_outputs, run, SOUFFLEPROF
from vlib.pcheck import PCheck

PID = "C20"
RULE = ("dlgen programs and (35%) recursion patterns over graphs with chains of up to 26 nodes (fixpoints of 10-25 iterations), 30% with an "
        "extra input relation whose only clauses are recursive (no eqrel, no subsumption; an `.input` relation that ALSO has non-recursive "
        "clauses is recorded finding F29 and only probed; every relation incl. EDB is an output; relation sizes < 1000 because souffleprof "
        "abbreviates larger counts), run at -j1 or -j4 with and without `-p <file>`. Oracle: (1) all output relations identical as "
        "multisets; (2) for every program relation listed by `souffleprof <file> -c rel`, the TUPLES column equals the number of "
        "tuples in that relation's output file. Non-trivial = the program has a recursive relation that needed >= 2 iterations "
        "(profile shows iteration records) or a relation fed by >= 2 rules, and >= 3 relations were compared with a non-zero "
        "count; distinct by hash of the program text.")
ROW = re.compile(r"^\s*\S+\s+\S+\s+\S+\s+\S+\s+\S+\s+\S+\s+(\S+)\s+\S+\s+\S+\s+R\d+\s+(\S+)\s*$")


def gen(ch):
    if ch.bool(0.35):
        # recursion patterns over graphs with long chains (fixpoints of 10-25 iterations), every relation an output
        P = dlgen.gen_recursive(ch, max_nodes=26, max_edges=30, npatterns=(1, 2), ring=True)
        for n in P.order:
            P.rels[n].output = True
    else:
        P = dlgen.generate(ch, dlgen.Feat(output_edb=True))
    text, facts = dlgen.to_souffle(P)
    if ch.bool(0.3):
        # an input relation whose only clauses are recursive (its loaded tuples must be counted too)
        pairs = sorted({(ch.int(0, 7), ch.int(0, 7)) for _ in range(ch.int(1, 8))})
        text += ".decl tin(x:number, y:number)\n.input tin\n.output tin\ntin(x, z) :- tin(x, y), tin(y, z).\n"
        facts = dict(facts)
        facts["tin.facts"] = "".join("%d\t%d\n" % p for p in pairs)
        P.order.append("tin")
        P.rels["tin"] = dlgen.Rel("tin", [dlgen.NUMBER, dlgen.NUMBER], "idb")
        P.rels["tin"].recursive = True
    names = {n: len(P.rels[n].types) for n in P.order}
    multi = sorted(n for n in P.order if len(P.rules_of(n)) >= 2)
    rec = sorted(n for n in P.order if P.rels[n].recursive)
    return {"program": text, "facts": facts, "rels": names, "j": ch.choice(["-j1", "-j4"]), "multi_rule": multi, "recursive": rec}


def judge(case, st=None):
    a = runner.run_program(case["program"], case["facts"], args=[case["j"]])
    runner.classify_failure(a, "base", case)
    with Scratch("prof") as d:
        files = {"p.dl": case["program"]}
        for k, v in case["facts"].items():
            files[os.path.join("facts", k)] = v
        write_files(d, files)
        for sub in ("facts", "out"):
            os.makedirs(os.path.join(d, sub), exist_ok=True)
        r = souffle(["-F", "facts", "-D", "out", "-p", "prof.json", case["j"], "p.dl"], cwd=d, timeout=30)
        b = runner.ProgResult(r, read_outputs(os.path.join(d, "out")))
        runner.classify_failure(b, "profiled", case)
        pr = run([SOUFFLEPROF, "prof.json", "-c", "rel"], cwd=d, timeout=30)
        if pr.timeout:
            raise Inconclusive("timeout:souffleprof")
        if pr.rc != 0:
            raise Violation("souffleprof failed on the profile souffle wrote: rc=%s\n%s" % (pr.rc, (pr.err or pr.out)[-800:]), {"case": case})
        table = pr.out
        iter_records = '"iteration"' in open(os.path.join(d, "prof.json")).read()
    msgs = runner.compare_outputs(a.outputs, b.outputs, la="plain", lb="profiled")
    reported = {}
    for ln in table.split("\n"):
        m = ROW.match(ln)
        if m:
            reported[m.group(2)] = m.group(1)
    compared = 0
    for name, cnt in reported.items():
        if name not in case["rels"]:
            continue
        lines = b.outputs.get(name)
        if lines is None:
            continue
        n = len(lines)
        if not re.fullmatch(r"\d+", cnt):
            continue   # abbreviated (>= 1000): not comparable exactly
        if int(cnt) != n:
            msgs.append("%s: profile reports %s tuples, the relation holds %d" % (name, cnt, n))
        elif n > 0:
            compared += 1
    if msgs:
        raise Violation("profiling is not transparent / reports wrong sizes (%s):\n%s" % (case["j"], "\n".join(msgs)), {"case": case})
    if st is not None:
        st.classes["relations_compared_nonzero"] += compared
        multi = [n for n in case["multi_rule"] if n in reported]
        rec = [n for n in case["recursive"] if n in reported and b.outputs.get(n)]
        if compared >= 3 and (multi or (rec and iter_records)):
            st.nontrivial.add(common.h(case["program"]))
            if multi:
                st.classes["relation_with_>=2_rules"] += 1
            if rec:
                st.classes["recursive_relation_nonempty"] += 1
            st.sample({"program": case["program"], "facts": case["facts"], "j": case["j"],
                       "reported": {k: v for k, v in reported.items() if k in case["rels"]}})
        else:
            st.classes["trivial"] += 1


F29_PROGRAM = ".decl b(x:number)\nb(7). b(8).\n.decl a(x:number)\n.input a\n.output a\na(x) :- b(x).\n"
F29_FACTS = {"a.facts": "1\n2\n3\n"}


def probes(st, tier, seed):
    for f in common.findings_for(PID):
        if f["key"] == "F29":
            try:
                judge({"program": F29_PROGRAM, "facts": F29_FACTS, "rels": {"a": 1, "b": 1}, "j": "-j1", "multi_rule": [], "recursive": []}, None)
            except Violation:
                st.known_lines.append(f["what"])
            except (Discard, Inconclusive):
                st.known_lines.append(f["what"])


CHECK = PCheck(PID, RULE, gen, judge, quick=1200, thorough=20000, floor=50, probes=probes,
               assumptions=["interpreter back end", "relations the optimiser removed do not appear in the profile and are not compared"])
main, replay_file = CHECK.main, CHECK.replay_file
