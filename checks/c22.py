"""C22 -- every use of autoinc() within one evaluation yields a distinct value, also under parallel evaluation."""
import random
from vlib import runner, common
from vlib.common import Violation, Discard, Inconclusive
from vlib.pcheck import PCheck

PID = "C22"
RULE = ("Generated programs with autoinc() in 1-4 rules: in rule heads (bare and inside arithmetic), in several rules feeding one "
        "relation, and over the result of a recursive stratum; every autoinc rule has a companion rule with the same body whose head lists all body "
        "variables, so the exact number of rule evaluations is known. EDBs of 300-6000 tuples from generated .facts files; run at "
        "-jN, N in {1,2,4,8,16}, with the seeded perturbation hook in 3 of 4 parallel runs; 4% of the cases run in compiled mode (-c) "
        "with three autoinc relations, the middle one over a recursive stratum (autoinc() used before and after a fixpoint loop). Oracle: (1) the values in all autoinc columns of "
        "the whole run are pairwise distinct; (2) every autoinc relation holds exactly as many tuples as its rules were evaluated "
        "(sum of the companions' sizes). Non-trivial = N >= 2, the transformed RAM "
        "contains a PARALLEL operation and >= 1000 autoinc evaluations happened; distinct by hash of (program, facts, N, seed).")


def gen(ch):
    n = ch.choice([300, 600, 1200, 2500, 6000])
    dom = ch.choice([20, 50, 200, 1000])
    rng = random.Random(ch.int(0, 1 << 30))   # bulk data only: derived from a generated seed, replayable through the trace
    e = sorted({(rng.randrange(dom), rng.randrange(dom)) for _ in range(n)})
    k = sorted({(rng.randrange(dom),) for _ in range(max(3, dom // 4))})
    facts = {"e.facts": "".join("%d\t%d\n" % t for t in e), "k.facts": "".join("%d\n" % t for t in k)}
    lines = [".decl e(a:number, b:number)", ".input e", ".decl k(a:number)", ".input k"]
    expect = {}      # relation -> list of companion relations whose sizes add up, or ("const", n)
    cols = {}        # relation -> index of the autoinc column
    compiled = ch.bool(0.04)     # a C++ compile per case: rare; shaped so that autoinc() is used before and after a fixpoint loop
    if compiled:
        n = min(n, 1200)
    nrel = 3 if compiled else ch.int(1, 3)
    comp = [0]

    def companion(body, vars_):
        comp[0] += 1
        c = "c%d" % comp[0]
        lines.append(".decl %s(%s)" % (c, ", ".join("v%d:number" % i for i in range(len(vars_)))))
        lines.append(".output %s" % c)
        lines.append("%s(%s) :- %s." % (c, ", ".join(vars_), body))
        return c
    # every body variable is a head variable: the number of rule evaluations is then the number of distinct body
    # solutions whatever the optimiser does with existential sub-goals
    bodies = [("e(x, y)", ["x", "y"]), ("e(x, y), k(y)", ["x", "y"]), ("e(x, y), e(y, z)", ["x", "y", "z"]),
              ("k(x), e(x, y), y != x", ["x", "y"]), ("e(x, y), !k(x)", ["x", "y"])]
    for i in range(nrel):
        kind = ch.weighted([(4, "head"), (3, "bound"), (3, "two_rules"), (2, "recursive")])
        if compiled:
            kind = "recursive" if i == 1 else kind if kind != "recursive" else "head"
        r = "r%d" % i
        if kind == "recursive":
            # (autoinc() inside a recursive rule is rejected by the semantic checker; it is applied to the result of a
            # recursive stratum instead)
            lines += [".decl tc%d(x:number, y:number)" % i, ".output tc%d" % i, "tc%d(x, y) :- e(x, y), k(x)." % i,
                      "tc%d(x, z) :- tc%d(x, y), e(y, z)." % (i, i),
                      ".decl %s(x:number, y:number, i:number)" % r, ".output %s" % r,
                      "%s(x, y, autoinc()) :- tc%d(x, y)." % (r, i)]
            expect[r] = ("sum", ["tc%d" % i])
            cols[r] = 2
            continue
        nrules = 2 if kind == "two_rules" else 1
        body0, vars0 = ch.choice(bodies)
        ar = len(vars0)
        lines += [".decl %s(%s, i:number)" % (r, ", ".join("a%d:number" % q for q in range(ar))), ".output %s" % r]
        cols[r] = ar
        comps = []
        for q in range(nrules):
            body, vars_ = (body0, vars0) if q == 0 else ch.choice([b for b in bodies if len(b[1]) == ar])
            comps.append(companion(body, vars_))
            # (a body equation `i = autoinc()` is rejected as ungrounded; the functor is used in heads, bare or inside arithmetic)
            if kind == "bound" or ch.bool(0.3):
                lines.append("%s(%s, autoinc() + 0) :- %s." % (r, ", ".join(vars_), body))
            else:
                lines.append("%s(%s, autoinc()) :- %s." % (r, ", ".join(vars_), body))
        expect[r] = ("sum", comps)
    j = ch.choice([1, 2, 4, 8, 16])
    env = {}
    if j > 1 and ch.bool(0.75):
        env["SOUFFLE_VERIF_PERTURB"] = str(ch.int(1, 1 << 20))
    return {"program": "\n".join(lines) + "\n", "facts": facts, "args": ["-j%d" % j] + (["-c"] if compiled else []), "env": env, "expect": expect,
            "cols": cols, "j": j, "compiled": compiled}


def judge(case, st=None):
    res = runner.run_program(case["program"], case["facts"], args=case["args"], env=case["env"], timeout=900 if case.get("compiled") else 120)
    runner.classify_failure(res, "run", case)
    seen = {}
    msgs = []
    total = 0
    for r, col in case["cols"].items():
        lines = res.outputs.get(r)
        if lines is None:
            msgs.append("%s: no output" % r)
            continue
        kind, what = case["expect"][r]
        want = what if kind == "const" else sum(len(res.outputs.get(c) or []) for c in what)
        if len(lines) != want:
            msgs.append("%s holds %d tuples but its rules were evaluated %d times (a repeated value merged two tuples, or evaluations were lost)" % (r, len(lines), want))
        for ln in lines:
            v = ln.split("\t")[col]
            if v in seen:
                msgs.append("autoinc value %s occurs twice: %s(%s) and %s(%s)" % (v, seen[v][0], seen[v][1], r, ln))
                if len(msgs) > 6:
                    break
            else:
                seen[v] = (r, ln)
        total += len(lines)
    if msgs:
        raise Violation("autoinc() values are not unique within the run (%s):\n%s" % (" ".join(case["args"]), "\n".join(msgs[:8])),
                        {"case": case, "selfevident": True})
    if st is not None:
        if case.get("compiled"):
            st.classes["compiled_mode(autoinc before and after a fixpoint loop)"] += 1
        ram = runner.show(case["program"], case["facts"], "transformed-ram", args=[a for a in case["args"] if a != "-c"])
        par = ram is not None and "PARALLEL" in ram
        if case["j"] >= 2 and par and total >= 1000:
            st.nontrivial.add(common.h(case["program"] + repr(sorted(case["facts"].items())) + repr(case["args"]) + repr(case["env"])))
            st.classes["parallel_autoinc>=1000"] += 1
            st.classes["-j%d" % case["j"]] += 1
            st.sample({"program": case["program"], "facts_sizes": {k: v.count("\n") for k, v in case["facts"].items()},
                       "args": case["args"], "env": case["env"], "autoinc_values": total})
        else:
            st.classes["trivial:" + ("sequential" if case["j"] < 2 else "no_parallel_op" if not par else "few_evaluations")] += 1


def extra(st):
    return {"schedule_control": "perturbation (seeded yields/sleeps at hook points); a lost update needs a real collision, volume is the lever"}


CHECK = PCheck(PID, RULE, gen, judge, quick=250, thorough=6000, floor=30, extra=extra,
               assumptions=["interpreter back end except for the 4% compiled cases", "OS schedules are sampled under seeded perturbation, not controlled"])
main, replay_file = CHECK.main, CHECK.replay_file
