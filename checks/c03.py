"""C03 -- results do not depend on the thread count or the thread schedule (interpreter; compiled tier in thorough)."""
import os
from vlib import dlgen, runner, common
from vlib.common import Violation, Discard, Inconclusive
from vlib.pcheck import PCheck

PID = "C03"
JS = [2, 3, 4, 7, 8, 16]
RULE = ("Programs without choice-domain and autoinc: recursion workloads over random graphs with up to 40 nodes / 150 edges (relations "
        "of hundreds to thousands of tuples, so parallel scans really partition; 35% with a relation stamping every reached node with "
        "recursive_iteration_cnt(), the loop counter read inside the scans) and general dlgen programs with enlarged EDBs; "
        "run at -j1 (reference) and at -jN, N drawn from {2,3,4,7,8,16}, with the guarded perturbation hook "
        "(SOUFFLE_VERIF_PERTURB=<generated seed>: seeded yields / short sleeps at every lock operation, CAS site and parallel-loop "
        "iteration) in 3 of 4 runs; interpreter in both tiers, plus 1.5% compiled variants (-jN -c against the interpreter at -j1, with "
        "rules whose outermost operation is an aggregate). All output relations compared as multisets with the -j1 outputs. Non-trivial = the transformed RAM at -jN "
        "contains a PARALLEL operation and some output relation holds >= 50 tuples; distinct by hash of (program, N, seed). "
        "This is a search over OS schedules under seeded perturbation, not schedule control (OpenMP barriers cannot be serialised).")


def gen(ch):
    if ch.bool(0.015):
        # a compiled variant (one C++ compile per case, hence rare): parallel code is chosen at translation time from -jN, so the
        # -j4 executable is compared with the interpreter at -j1; rules whose outermost operation is an aggregate are added
        P = dlgen.generate(ch, dlgen.Feat(max_facts=40, max_groups=3))
        for _ in range(ch.int(1, 2)):
            dlgen.add_agg_only(P, ch)
        text, facts = dlgen.to_souffle(P)
        return {"program": text, "facts": facts, "base": {"args": ["-j1"]}, "variant": {"args": ["-j%d" % ch.choice([2, 4, 8]), "-c"], "env": {}},
                "compiled": True}
    if ch.bool(0.65):
        P = dlgen.gen_recursive(ch, max_nodes=40, max_edges=150, npatterns=(1, 3))
    else:
        P = dlgen.generate(ch, dlgen.Feat(max_facts=40, max_groups=4))
    text, facts = dlgen.to_souffle(P)
    if "e0" in P.rels and "e1" in P.rels and len(P.rels["e0"].types) == 2 and len(P.rels["e1"].types) == 1 and ch.bool(0.35) \
            and all(t == dlgen.NUMBER for t in P.rels["e0"].types + P.rels["e1"].types):
        # the loop counter of the recursive stratum, read inside (possibly parallel) scans
        text += (".decl stamp(n:number, it:unsigned)\n.output stamp\nstamp(x, 0) :- e1(x).\n"
                 "stamp(y, recursive_iteration_cnt()) :- stamp(x, _), e0(x, y), recursive_iteration_cnt() < %d.\n" % ch.int(3, 9))
    j = ch.choice(JS)
    env = {}
    if ch.bool(0.75):
        env["SOUFFLE_VERIF_PERTURB"] = str(ch.int(1, 1 << 20))
    return {"program": text, "facts": facts, "base": {"args": ["-j1"]}, "variant": {"args": ["-j%d" % j], "env": env}}


def judge(case, st=None):
    a, b = runner.differential(case, timeout=900 if case.get("compiled") else 60)
    if st is not None:
        if case.get("compiled"):
            st.classes["compiled_variant(-jN -c vs interpreter -j1)"] += 1
        big = any(len(v) >= 50 for v in a.outputs.values())
        ram = runner.show(case["program"], case["facts"], "transformed-ram", args=[x for x in case["variant"]["args"] if x != "-c"])
        par = ram is not None and "PARALLEL" in ram
        if par and big:
            st.nontrivial.add(common.h(case["program"] + repr(case["variant"])))
            for kind in ("PARALLEL SCAN", "PARALLEL INDEX", "PARALLEL IF", "PARALLEL AGGREGATE", "PARALLEL CHOICE", "PARALLEL FOR"):
                if kind in ram:
                    st.classes["ram_has:" + kind] += 1
            st.classes[case["variant"]["args"][0]] += 1
            if case["variant"].get("env"):
                st.classes["perturbed"] += 1
            st.sample({"program": case["program"][:3000], "facts": {k: v[:300] for k, v in case["facts"].items()},
                       "variant": case["variant"], "sizes": {k: len(v) for k, v in a.outputs.items()}})
        else:
            st.classes["trivial:" + ("small" if par else "no_parallel_op")] += 1


def extra(st):
    return {"schedule_control": "perturbation (seeded yields/sleeps at hook points); OS schedules are sampled, not enumerated"}


CHECK = PCheck(PID, RULE, gen, judge, quick=900, thorough=20000, floor=50, extra=extra,
               assumptions=["interpreter back end in the quick tier", "a schedule-dependent defect needs a real collision: detection is probabilistic"])
main, replay_file = CHECK.main, CHECK.replay_file
