"""C11 -- subsumption leaves exactly the non-dominated derivable tuples, identically in every mode and thread count."""
from vlib import dlgen, dlref, runner, common
from vlib.common import Violation, Discard, Inconclusive
from vlib.dlgen import Rel, Rule, Atom, Neg, Cmp, Var, Const, Fn, Program, NUMBER
from vlib.refops import OutOfDomain
from vlib.pcheck import PCheck
from vlib.hyp import Chooser

PID = "C11"
RULE = ("Generated relations R(key..., cost...) declared btree_delete with subsumptive clauses `R(k,c1) <= R(k,c2) :- <strict order>`: "
        "same key (0-2 key columns) and a strict order on 1-2 cost columns (smaller wins / larger wins / lexicographic over two "
        "columns, expressed by two subsumptive clauses), irreflexive and transitive by construction. Three families: monotone cost "
        "programs (smaller wins; recursive rules update the cost by c+w or max(c,w), w >= 0, under the downward-closed guard "
        "c < CAP over a random weighted graph -- shortest-distance style), unrestricted ones (either direction, extra "
        "non-recursive rules) and 'offers' (35%: a non-recursive relation of 20-500 tuples over 0-2 key and 1-2 cost columns fed from "
        "a fact file (.input), inline facts, a copy rule or a mix, in ascending/descending/shuffled order; bulk tuples expanded from "
        "one generated seed; U = the supplied tuples, expectation exact: R == the non-dominated tuples of U). U := reference evaluation (dlref) of the program WITHOUT the subsumptive clauses. Oracle: (1) no final "
        "tuple is dominated by another final tuple; (2) R is a subset of U; (3) the interpreter's R at -j1 equals R at -jN (N in "
        "{2,4,8}, perturbation hook on) [compiled mode in the thorough tier]; (4) monotone family: R == minimal elements of U. "
        "Non-trivial = U has a key with >= 3 comparable tuples and |R| < |U|; distinct by hash "
        "of (program, args).")


def gen_offers(ch):
    """'cheapest offer per key': a large, non-recursive subsumptive relation fed from a fact file, inline facts and/or a rule, so
    that the erase paths of the underlying B-tree (several nodes, rebalancing, merging) are exercised. The bulk data is expanded
    from one generated seed (a pure function of the draw), everything else is drawn individually."""
    import random
    nkeys = ch.choice([1, 1, 2, 0])
    ncost = ch.choice([1, 1, 2])
    smaller = ch.bool(0.5)
    n = ch.choice([ch.int(20, 120), ch.int(120, 300), ch.int(300, 500)])
    kdom = max(1, n // ch.choice([1, 2, 4, 8, 30]))
    cdom = ch.choice([3, 8, 40, 1000])
    rnd = random.Random(ch.int(0, (1 << 30) - 1))
    arity = nkeys + ncost
    tuples = set()
    for _ in range(n):
        if nkeys == 2:
            k = rnd.randrange(kdom)
            key = (k % 7, k // 7)
        else:
            key = (rnd.randrange(kdom),) * nkeys
        tuples.add(key + tuple(rnd.randrange(cdom) for _ in range(ncost)))
    tuples = sorted(tuples)
    order = ch.choice(["asc", "desc", "shuffled"])
    if order == "desc":
        tuples.reverse()
    elif order == "shuffled":
        rnd.shuffle(tuples)
    source = ch.choice(["input", "input", "inline", "rule", "mixed"])
    parts = {"input": [], "inline": [], "rule": []}
    for t in tuples:
        parts[source if source != "mixed" else rnd.choice(["input", "inline", "rule"])].append(t)
    cols = ", ".join("a%d:number" % i for i in range(arity))
    vs = ", ".join("v%d" % i for i in range(arity))
    text = [".decl r(%s) btree_delete" % cols, ".output r"]
    facts = {}
    if source in ("input", "mixed"):
        text.append(".input r")
        facts["r.facts"] = "".join("\t".join(map(str, t)) + "\n" for t in parts["input"])
    text += ["r(%s)." % ", ".join(map(str, t)) for t in parts["inline"]]
    if source in ("rule", "mixed"):
        text += [".decl e(%s)" % cols, ".input e", "r(%s) :- e(%s)." % (vs, vs)]
        facts["e.facts"] = "".join("\t".join(map(str, t)) + "\n" for t in parts["rule"])
    ks = ["k%d" % i for i in range(nkeys)]
    lt = "<" if smaller else ">"
    if ncost == 1:
        text.append("r(%s) <= r(%s) :- c2 %s c1." % (", ".join(ks + ["c1"]), ", ".join(ks + ["c2"]), lt))
    else:
        text.append("r(%s) <= r(%s) :- c2 %s c1." % (", ".join(ks + ["c1", "d1"]), ", ".join(ks + ["c2", "d2"]), lt))
        text.append("r(%s) <= r(%s) :- d2 %s d1." % (", ".join(ks + ["c1", "d1"]), ", ".join(ks + ["c1", "d2"]), lt))
    text += [".decl q(c:number)", ".output q", "q(c) :- r(%s)." % ", ".join(["_"] * nkeys + ["c"] + ["_"] * (ncost - 1))]
    j = ch.choice([2, 4, 8])
    env = {"SOUFFLE_VERIF_PERTURB": str(ch.int(1, 1 << 20))} if ch.bool(0.5) else {}
    return {"program": "\n".join(text) + "\n", "facts": facts, "nkeys": nkeys, "ncost": ncost, "smaller": smaller, "mono": True,
            "family": "offers", "source": source, "order": order, "n": len(tuples),
            "base": {"args": ["-j1"]}, "variant": {"args": ["-j%d" % j], "env": env}, "_U": set(tuples)}


def gen(ch):
    if ch.bool(0.35):
        return gen_offers(ch)
    P = Program()
    dom = ch.int(3, 6)
    mono = ch.bool(0.6)
    e = Rel("e", [NUMBER, NUMBER, NUMBER], "edb")
    e.facts = sorted({(ch.int(0, dom), ch.int(0, dom), ch.int(0, 3)) for _ in range(ch.int(3, 16))})
    e.output = False
    P.add_rel(e)
    s = Rel("s", [NUMBER, NUMBER], "edb")
    s.facts = sorted({(ch.int(0, dom), ch.int(0, 4)) for _ in range(ch.int(1, 4))})
    s.output = False
    P.add_rel(s)
    nkeys = ch.choice([1, 1, 2, 0])
    ncost = 1 if mono or ch.bool(0.6) else 2
    R = Rel("r", [NUMBER] * (nkeys + ncost), "idb")
    R.quals.append("btree_delete")
    R.group = 0
    R.recursive = True
    P.add_rel(R)
    P.groups.append(["r"])
    smaller = True if mono else ch.bool(0.5)
    cap = ch.int(4, 12)
    X, Y, Z, C, D, Wt = (Var(n, NUMBER) for n in ("x", "y", "z", "c", "d", "w"))
    zero = Const(0, NUMBER)
    # seed rules and recursive rules per key shape
    if nkeys == 0:
        # a global frontier: r(c) -- cost only
        heads = lambda c, d: [c] + ([d] if ncost == 2 else [])
        P.rules.append(Rule(Atom("r", heads(C, zero)), [Atom("s", [X, C])]))
        upd = Fn("+", [C, Wt], NUMBER) if ch.bool(0.6) else Fn("max", [C, Wt], NUMBER)
        body = [Atom("r", heads(C, D)), Atom("e", [X, Y, Wt]), Cmp("<", C, Const(cap, NUMBER), NUMBER)]
        if ncost == 2:
            body.append(Cmp("<", D, Const(cap, NUMBER), NUMBER))
        rr = Rule(Atom("r", heads(upd, Fn("+", [D, Const(1, NUMBER)], NUMBER) if ncost == 2 else None)), body)
    elif nkeys == 1:
        heads = lambda k, c, d: [k, c] + ([d] if ncost == 2 else [])
        P.rules.append(Rule(Atom("r", heads(X, C, zero)), [Atom("s", [X, C])]))
        upd = Fn("+", [C, Wt], NUMBER) if ch.bool(0.6) else Fn("max", [C, Wt], NUMBER)
        body = [Atom("r", heads(X, C, D)), Atom("e", [X, Y, Wt]), Cmp("<", C, Const(cap, NUMBER), NUMBER)]
        if ncost == 2:
            body.append(Cmp("<", D, Const(cap, NUMBER), NUMBER))
        rr = Rule(Atom("r", heads(Y, upd, Fn("+", [D, Const(1, NUMBER)], NUMBER) if ncost == 2 else None)), body)
    else:
        heads = lambda a, b, c, d: [a, b, c] + ([d] if ncost == 2 else [])
        P.rules.append(Rule(Atom("r", heads(X, Y, Wt, zero)), [Atom("e", [X, Y, Wt])]))
        upd = Fn("+", [C, Wt], NUMBER) if ch.bool(0.6) else Fn("max", [C, Wt], NUMBER)
        body = [Atom("r", heads(X, Y, C, D)), Atom("e", [Y, Z, Wt]), Cmp("<", C, Const(cap, NUMBER), NUMBER)]
        if ncost == 2:
            body.append(Cmp("<", D, Const(cap, NUMBER), NUMBER))
        rr = Rule(Atom("r", heads(X, Z, upd, Fn("+", [D, Const(1, NUMBER)], NUMBER) if ncost == 2 else None)), body)
    rr.head.args = [a for a in rr.head.args if a is not None]
    rr.tags.add("rec")
    P.rules.append(rr)
    if not mono and ch.bool(0.5) and nkeys == 1:
        # an extra non-recursive rule
        P.rules.append(Rule(Atom("r", [Y, Wt] + ([zero] if ncost == 2 else [])), [Atom("e", [X, Y, Wt]), Neg(Atom("s", [Y, Wt]))]))
    R.output = True
    # a reader in a later stratum (compared across thread counts only)
    q = Rel("q", [NUMBER], "idb")
    q.group = 1
    P.add_rel(q)
    P.groups.append(["q"])
    P.rules.append(Rule(Atom("q", [C]), [Atom("r", [Var("a%d" % i, NUMBER) for i in range(nkeys)] + [C] + ([D] if ncost == 2 else []))]))
    base_text, facts = dlgen.to_souffle(P)
    # subsumptive clauses
    ks = ["k%d" % i for i in range(nkeys)]
    lt = "<" if smaller else ">"
    sub = []
    if ncost == 1:
        sub.append("r(%s) <= r(%s) :- c2 %s c1." % (", ".join(ks + ["c1"]), ", ".join(ks + ["c2"]), lt))
    else:
        sub.append("r(%s) <= r(%s) :- c2 %s c1." % (", ".join(ks + ["c1", "d1"]), ", ".join(ks + ["c2", "d2"]), lt))
        sub.append("r(%s) <= r(%s) :- d2 %s d1." % (", ".join(ks + ["c1", "d1"]), ", ".join(ks + ["c1", "d2"]), lt))
    text = base_text + "\n".join(sub) + "\n"
    j = ch.choice([2, 4, 8])
    env = {"SOUFFLE_VERIF_PERTURB": str(ch.int(1, 1 << 20))} if ch.bool(0.7) else {}
    return {"program": text, "facts": facts, "nkeys": nkeys, "ncost": ncost, "smaller": smaller, "mono": mono,
            "base": {"args": ["-j1"]}, "variant": {"args": ["-j%d" % j], "env": env}, "_P": P}


def dominated(t, u, nkeys, smaller):
    """is t dominated by u"""
    if t[:nkeys] != u[:nkeys] or t == u:
        return False
    ct, cu = t[nkeys:], u[nkeys:]
    return cu < ct if smaller else cu > ct


def judge(case, st=None):
    full = case if ("_P" in case or "_U" in case) else gen(Chooser(trace=case["trace"]))
    pub = {k: v for k, v in case.items() if k not in ("_P", "_U")}
    if "_U" in full:
        U = full["_U"]
        types = [NUMBER] * (case["nkeys"] + case["ncost"])
    else:
        P = full["_P"]
        try:
            db, rs = dlref.evaluate(P, dlref.Budget(steps=600000, tuples=6000, rounds=200))
        except OutOfDomain as ex:
            raise Discard("ood:" + str(ex).split(":")[0])
        U = db["r"]
        types = P.rels["r"].types
    a = runner.run_cfg(case, case["base"], timeout=60)
    runner.classify_failure(a, "-j1", pub)
    b = runner.run_cfg(case, case["variant"], timeout=60)
    runner.classify_failure(b, "variant", pub)
    msgs = runner.compare_outputs(a.outputs, b.outputs, la="-j1", lb=case["variant"]["args"][0])
    nk, sm = case["nkeys"], case["smaller"]
    for label, res in (("-j1", a), (case["variant"]["args"][0], b)):
        lines = res.outputs.get("r")
        if lines is None:
            msgs.append("%s: no output for r" % label)
            continue
        rows = dlref.parse_rows(lines, types)
        Rset = set(rows)
        if len(Rset) != len(rows):
            msgs.append("%s: duplicate tuples in r" % label)
        for t in sorted(Rset):
            dom = [u for u in Rset if dominated(t, u, nk, sm)]
            if dom:
                msgs.append("%s: final tuple %r is dominated by final tuple %r" % (label, t, dom[0]))
                break
        notu = sorted(Rset - U)[:5]
        if notu:
            msgs.append("%s: tuples not derivable without subsumption: %r" % (label, notu))
        if case["mono"]:
            best = {}
            for t in U:   # dominance is a strict total order inside a key: the per-key extremum is the only survivor
                if t[:nk] not in best or dominated(best[t[:nk]], t, nk, sm):
                    best[t[:nk]] = t
            minimal = set(best.values())
            if Rset != minimal:
                msgs.append("%s: monotone cost program, result differs from the minimal tuples of the unsubsumed result: missing %r extra %r" % (
                    label, sorted(minimal - Rset)[:5], sorted(Rset - minimal)[:5]))
    if msgs:
        raise Violation("subsumption result is wrong:\n" + "\n".join(msgs[:8]), {"case": pub})
    if st is not None:
        nR = len(set(a.outputs.get("r") or []))
        perkey = {}
        for t in U:
            perkey[t[:nk]] = perkey.get(t[:nk], 0) + 1
        if perkey and max(perkey.values()) >= 3 and nR < len(U):
            st.nontrivial.add(common.h(case["program"] + repr(case["variant"])))
            st.classes[case.get("family") or ("monotone" if case["mono"] else "unrestricted")] += 1
            if case.get("family") == "offers":
                st.classes["offers:source=%s" % case["source"]] += 1
                st.classes["offers:n>=%d" % (300 if case["n"] >= 300 else 120 if case["n"] >= 120 else 0)] += 1
            st.classes["keys=%d,costs=%d" % (nk, case["ncost"])] += 1
            st.sample({"program": case["program"], "variant": case["variant"], "unsubsumed_size": len(U), "result_size": nR})
        else:
            st.classes["trivial"] += 1


class Check(PCheck):
    def worker(self, shard, seed, n, params):
        from vlib.common import Stats
        from vlib.hyp import hyp_run
        st = Stats()

        def prop(ch):
            case = self.gen(ch)
            st.evals += 1
            self.judge(case, st)
        hyp_run(prop, seed, n, st)
        return st


CHECK = Check(PID, RULE, gen, judge, quick=1200, thorough=25000, floor=50,
              assumptions=["interpreter back end in the quick tier", "dominance conditions are strict partial orders by construction",
                           "U is computed by the reference evaluator dlref"])
main, replay_file = CHECK.main, CHECK.replay_file
