"""C24 -- intrinsic functors and constraints follow their documented value semantics; interpreter == compiled == reference."""
import os, re, math, random, time, json
from vlib import common, runner
from vlib.common import Violation, Discard, Inconclusive, Stats, Scratch, souffle, write_files, read_outputs, run
from vlib.refops import (OutOfDomain, arith, compare, strlen, substr, f32, chk_f, chk_i, I32_MIN, I32_MAX, U32_MAX, to_signed)

PID = "C24"
RULE = ("One generated matrix program per run: for every intrinsic operator x overload (number / unsigned / float / symbol) a rule "
        "`res(a,b,op(a,b)) :- args(a,b).`, for every comparison / match / contains constraint a rule copying the argument tuple iff the "
        "constraint holds, and for every conversion (to_number / to_unsigned / to_float / to_string in all directions) a rule applying "
        "it; plus comparisons ACROSS two relations for number / unsigned / float (`xl(a), xr(b), b OP a` for < <= > >= and two bounds of one direction on one attribute -- the shapes index selection turns into range queries; floats with -0.0 on one side and +0.0 on the other); argument relations are generated .facts files mixing per-type boundary pools (0, +-1, min, max, min+1, max-1, powers of "
        "two +-1, shift counts 0/31/32/33/-1, +-0.0-free float grid and large/small magnitudes, empty string, regex metacharacters, "
        "non-ASCII bytes) with seeded random values. The independent reference table `refops` (documented C-like semantics: wrap-around "
        "unsigned, truncating division, masked shifts, IEEE single floats, byte strings) filters argument tuples outside an operator's "
        "defined domain BEFORE they are written and predicts every result. Oracle: interpreter result == compiled result == refops, "
        "tuple by tuple (float pow: interpreter == compiled exactly, refops within 1e-5 relative). Non-trivial = an argument tuple "
        "containing >= 1 boundary value; every (operator, overload) cell must be exercised >= 20 times or the check fails itself; "
        "distinct by hash of (cell, arguments).")

NUM_B = [0, 1, -1, 2, -2, 3, 7, 31, 32, 33, 255, 256, 65535, 65536, I32_MAX, I32_MAX - 1, I32_MIN, I32_MIN + 1, 1 << 30, -(1 << 30),
         (1 << 16) + 1, 46340, 46341, -46341, 1000000007 % (1 << 31)]
UNS_B = [0, 1, 2, 3, 7, 31, 32, 33, 255, 256, 65535, 65536, U32_MAX, U32_MAX - 1, 1 << 31, (1 << 31) - 1, (1 << 31) + 1, 1 << 30, 65537]
FLT_B = [0.0, 1.0, -1.0, 0.5, -0.5, 1.5, 2.0, 3.0, 0.1, -0.1, 1e10, -1e10, 1e-10, 3.4028234e38, -3.4028234e38, 1.17549435e-38,
         16777216.0, 16777217.0, 2147483648.0, -2147483648.0, 2147483520.0, 4294967040.0, 0.25, 100.125, 7.0, -7.5]
SYM_B = ["", "a", "b", "ab", "ba", "abc", "A", "a b", " ", "aa", "a.c", "a*", "[a]", "(", "x+", "\\d", "café", "0", "-1", "12", "1.5", "a,b"]


def gen_vals(rng, ty, n):
    out = []
    for _ in range(n):
        b = rng.random() < 0.5
        if ty == "number":
            out.append(rng.choice(NUM_B) if b else rng.choice([rng.randint(-20, 20), rng.randint(I32_MIN, I32_MAX)]))
        elif ty == "unsigned":
            out.append(rng.choice(UNS_B) if b else rng.choice([rng.randint(0, 40), rng.randint(0, U32_MAX)]))
        elif ty == "float":
            out.append(f32(rng.choice(FLT_B)) if b else f32(rng.choice([rng.randint(-64, 64) / 8.0, rng.uniform(-1e6, 1e6), rng.uniform(-3, 3)])))
        else:
            out.append(rng.choice(SYM_B) if b else "".join(rng.choice("abAB 1.") for _ in range(rng.randint(0, 6))))
    return out


def is_boundary(ty, v):
    return (ty == "number" and v in NUM_B) or (ty == "unsigned" and v in UNS_B) or (ty == "float" and any(f32(x) == v for x in FLT_B)) or \
           (ty == "symbol" and v in SYM_B)


INFIX = {"+": "+", "-": "-", "*": "*", "/": "/", "%": "%", "^": "^", "band": "band", "bor": "bor", "bxor": "bxor", "bshl": "bshl",
         "bshr": "bshr", "bshru": "bshru", "land": "land", "lor": "lor", "lxor": "lxor"}


def conv_ref(name, src, dst):
    def f(a):
        v = a[0]
        if dst == "symbol":
            if src == "float":
                return "%f" % v
            return str(v)
        if src == "symbol":
            if dst == "float":
                return chk_f(float(v))
            if dst == "number":
                return chk_i(int(v))
            u = int(v)
            if u < 0 or u > U32_MAX:
                raise OutOfDomain("range")
            return u
        if src == dst:
            return v
        if dst == "float":
            return chk_f(float(v))
        if src == "float":
            t = math.trunc(v)
            if dst == "number":
                return chk_i(t)
            if t < 0 or t > U32_MAX:
                raise OutOfDomain("float->unsigned range")
            return t
        if dst == "unsigned":
            return v & U32_MAX
        return to_signed(v)
    return f


def cells():
    """list of dicts: id, argtypes, restype, expr(format with a0..), ref(args)->value, kind ('fn'|'cmp'), tol"""
    C = []

    def fn(cid, argtypes, restype, expr, ref, tol=None, argfilter=None):
        C.append({"id": cid, "args": argtypes, "res": restype, "expr": expr, "ref": ref, "kind": "fn", "tol": tol, "filter": argfilter})

    def cmp(cid, argtypes, expr, ref):
        C.append({"id": cid, "args": argtypes, "res": None, "expr": expr, "ref": ref, "kind": "cmp", "tol": None, "filter": None})
    for ty, t in (("number", "n"), ("unsigned", "u"), ("float", "f")):
        ops = ["+", "-", "*", "/"] + (["%", "band", "bor", "bxor", "bshl", "bshr", "bshru", "land", "lor", "lxor"] if ty != "float" else [])
        for op in ops:
            nm = {"+": "add", "-": "sub", "*": "mul", "/": "div", "%": "mod"}.get(op, op)
            fn("%s_%s" % (nm, t), [ty, ty], ty, "({a0} %s {a1})" % INFIX[op], (lambda o, y: (lambda a: arith(o, y, a)))(op, ty))
        if ty == "float":
            def fpow(a):
                if a[0] <= 0 or abs(a[1]) > 8:
                    raise OutOfDomain("pow domain")
                return chk_f(math.pow(a[0], a[1]))
            fn("exp_f", [ty, ty], ty, "({a0} ^ {a1})", fpow, tol=1e-5)
        else:
            def ipow(a, y=ty):
                if a[1] < 0 or a[1] > 40 or abs(a[0]) > 100000:
                    raise OutOfDomain("pow domain")
                r = a[0] ** a[1]
                if (y == "number" and not (I32_MIN <= r <= I32_MAX)) or (y == "unsigned" and not (0 <= r <= U32_MAX)):
                    raise OutOfDomain("pow range")
                return r
            fn("exp_%s" % t, [ty, ty], ty, "({a0} ^ {a1})", ipow)
        fn("max2_%s" % t, [ty, ty], ty, "max({a0}, {a1})", (lambda y: (lambda a: arith("max", y, a)))(ty))
        fn("min3_%s" % t, [ty, ty, ty], ty, "min({a0}, {a1}, {a2})", (lambda y: (lambda a: arith("min", y, a)))(ty))
        if ty != "unsigned":
            fn("neg_%s" % t, [ty], ty, "(-({a0}))", (lambda y: (lambda a: arith("neg", y, a)))(ty))
        if ty != "float":
            fn("bnot_%s" % t, [ty], ty, "bnot({a0})", (lambda y: (lambda a: arith("bnot", y, a)))(ty))
            fn("lnot_%s" % t, [ty], ty, "lnot({a0})", (lambda y: (lambda a: arith("lnot", y, a)))(ty))
        for op, nm in (("=", "eq"), ("!=", "ne"), ("<", "lt"), ("<=", "le"), (">", "gt"), (">=", "ge")):
            cmp("%s_%s" % (nm, t), [ty, ty], "{a0} %s {a1}" % op, (lambda o, y: (lambda a: compare(o, y, a[0], a[1])))(op, ty))
    # symbols
    fn("cat2", ["symbol", "symbol"], "symbol", "cat({a0}, {a1})", lambda a: a[0] + a[1])
    fn("cat3", ["symbol", "symbol", "symbol"], "symbol", "cat({a0}, {a1}, {a2})", lambda a: a[0] + a[1] + a[2])
    fn("strlen", ["symbol"], "number", "strlen({a0})", lambda a: strlen(a[0]))
    fn("substr", ["symbol", "number", "number"], "symbol", "substr({a0}, {a1}, {a2})", lambda a: substr(a[0], a[1], a[2]),
       argfilter=lambda a: -2 <= a[1] <= 12 and -2 <= a[2] <= 12)
    fn("max2_s", ["symbol", "symbol"], "symbol", "max({a0}, {a1})", lambda a: arith("max", "symbol", a))
    fn("min2_s", ["symbol", "symbol"], "symbol", "min({a0}, {a1})", lambda a: arith("min", "symbol", a))
    for op, nm in (("=", "eq"), ("!=", "ne"), ("<", "lt"), ("<=", "le"), (">", "gt"), (">=", "ge")):
        cmp("%s_s" % nm, ["symbol", "symbol"], "{a0} %s {a1}" % op, (lambda o: (lambda a: compare(o, "symbol", a[0], a[1])))(op))
    cmp("contains", ["symbol", "symbol"], "contains({a0}, {a1})", lambda a: a[0].encode("utf-8") in a[1].encode("utf-8"))

    def ref_match(a):
        pat, s = a
        if any(ch in pat for ch in "\\[]()*+?{}|^$") and pat not in ("a*", "x+", "[a]", "a.c"):
            raise OutOfDomain("regex outside the tested subset")
        try:
            return re.fullmatch(pat, s) is not None
        except re.error:
            raise OutOfDomain("bad regex")
    cmp("match", ["symbol", "symbol"], "match({a0}, {a1})", ref_match)
    # conversions
    names = {"number": "to_number", "unsigned": "to_unsigned", "float": "to_float", "symbol": "to_string"}
    for src in ("number", "unsigned", "float", "symbol"):
        for dst in ("number", "unsigned", "float", "symbol"):
            if src == dst:
                continue
            flt = None
            if src == "symbol":
                canon = {"number": re.compile(r"-?(0|[1-9][0-9]{0,9})$"), "unsigned": re.compile(r"(0|[1-9][0-9]{0,9})$"),
                         "float": re.compile(r"-?(0|[1-9][0-9]{0,6})(\.[0-9]{1,4})?$")}[dst]
                flt = (lambda rx: (lambda a: rx.match(a[0]) is not None))(canon)
            fn("%s_from_%s" % (names[dst], src[0]), [src], dst, "%s({a0})" % names[dst], conv_ref(names[dst], src, dst), argfilter=flt)
    return C


def fmt_fact(v, ty):
    if ty == "float":
        return repr(float(v))
    return str(v)


def parse_val(text, ty):
    if ty in ("number", "unsigned"):
        return int(text)
    if ty == "float":
        return f32(float(text))
    return text


def build(seed, per_cell):
    rng = random.Random(seed)
    C = cells()
    lines, facts, expected, stats = [], {}, {}, {}
    tmap = {"number": "number", "unsigned": "unsigned", "float": "float", "symbol": "symbol"}
    for c in C:
        rows, exp = [], {}
        tries = 0
        nb = 0
        while len(rows) < per_cell and tries < per_cell * 40:
            tries += 1
            if c["id"].startswith("to_") and c["args"] == ["symbol"]:
                kind = c["res"]
                a = [rng.choice(["0", "1", "-1", "12", "2147483647", "-2147483648", "4294967295", "1.5", "-0.25", "100.125", "7", "42",
                                 str(rng.randint(-5000, 5000)), str(rng.randint(0, U32_MAX)), str(rng.randint(I32_MIN, I32_MAX)),
                                 "%d.%d" % (rng.randint(-999, 999), rng.randint(0, 9999)), "%d.5" % rng.randint(0, 100000)])]
            elif c["id"] in ("substr",):
                a = [gen_vals(rng, "symbol", 1)[0], rng.randint(-1, 8), rng.randint(-1, 8)]
            elif c["id"] in ("match",):
                a = [rng.choice(["a", "ab", "a*", "x+", "[a]", "a.c", "", "abc"]), gen_vals(rng, "symbol", 1)[0]]
            elif c["id"].startswith(("bsh",)):
                ty = c["args"][0]
                a = [gen_vals(rng, ty, 1)[0], rng.choice([0, 1, 5, 31, 32, 33, 63, 64] + ([-1, -31] if ty == "number" else [U32_MAX]))]
            elif c["id"].startswith("exp_"):
                ty = c["args"][0]
                a = [f32(rng.choice([0.5, 1.5, 2.0, 3.0, 10.0, 0.1])), f32(rng.choice([0.0, 1.0, 2.0, 0.5, -1.0, 3.0]))] if ty == "float" else \
                    [rng.choice([0, 1, 2, 3, 7, 10, 46340, 65536] + ([-1, -2, -3] if ty == "number" else [])), rng.choice([0, 1, 2, 3, 5, 15, 16, 30, 31, 32])]
            else:
                a = [gen_vals(rng, ty, 1)[0] for ty in c["args"]]
            if any(isinstance(v, str) and ("\t" in v or "\n" in v) for v in a):
                continue
            if c["filter"] is not None and not c["filter"](a):
                continue
            key = tuple(a)
            if key in exp:
                continue
            try:
                r = c["ref"](a)
            except OutOfDomain:
                stats["out_of_domain"] = stats.get("out_of_domain", 0) + 1
                continue
            except (ValueError, OverflowError, ZeroDivisionError):
                continue
            if isinstance(r, str) and ("\t" in r or "\n" in r):
                continue
            exp[key] = r
            rows.append(a)
            if any(is_boundary(t, v) for t, v in zip(c["args"], a)):
                nb += 1
        expected[c["id"]] = exp
        stats[c["id"]] = (len(rows), nb)
        ar = len(c["args"])
        lines.append(".decl a_%s(%s)" % (c["id"], ", ".join("x%d:%s" % (i, tmap[t]) for i, t in enumerate(c["args"]))))
        lines.append(".input a_%s" % c["id"])
        facts["a_%s.facts" % c["id"]] = "".join("\t".join(fmt_fact(v, t) for v, t in zip(a, c["args"])) + "\n" for a in rows)
        vs = ["x%d" % i for i in range(ar)]
        expr = c["expr"].format(**{"a%d" % i: v for i, v in enumerate(vs)})
        if c["kind"] == "fn":
            lines.append(".decl r_%s(%s, r:%s)" % (c["id"], ", ".join("x%d:%s" % (i, tmap[t]) for i, t in enumerate(c["args"])), tmap[c["res"]]))
            lines.append(".output r_%s" % c["id"])
            lines.append("r_%s(%s, %s) :- a_%s(%s)." % (c["id"], ", ".join(vs), expr, c["id"], ", ".join(vs)))
        else:
            lines.append(".decl r_%s(%s)" % (c["id"], ", ".join("x%d:%s" % (i, tmap[t]) for i, t in enumerate(c["args"]))))
            lines.append(".output r_%s" % c["id"])
            lines.append("r_%s(%s) :- a_%s(%s), %s." % (c["id"], ", ".join(vs), c["id"], ", ".join(vs), expr))
    xl, xf, xe = build_cross(rng)
    lines += xl
    facts.update(xf)
    stats["__cross__"] = xe
    return C, "\n".join(lines) + "\n", facts, expected, stats


CROSS_OPS = {"lt": ("<", lambda a, b: a < b), "le": ("<=", lambda a, b: a <= b), "gt": (">", lambda a, b: a > b), "ge": (">=", lambda a, b: a >= b)}


def build_cross(rng):
    """comparisons ACROSS two relations (the shape that index selection turns into range queries), incl. two bounds on one
    attribute, for number / unsigned / float. The float lists carry -0.0 on the left and +0.0 on the right only (never both signs in
    one relation: the identity of the two zeros inside one relation is recorded finding F27 of C02), and `=` / `!=` are left to the
    per-tuple cells for the same reason."""
    lines, facts, expected = [], {}, {}
    pools = {
        "number": ([0, -1, 1, I32_MIN, I32_MAX, 5, -7], [0, 1, -1, I32_MAX, I32_MIN + 1, 6, -7]),
        "unsigned": ([0, 1, 5, (1 << 31) - 1, 1 << 31, 3000000000, U32_MAX], [0, 2, 5, 1 << 31, (1 << 31) + 1, 3500000000, U32_MAX - 1]),
        "float": ([-0.0, -1.0, 1.5, -2.5e-10, 3.0e38, -3.0e38], [0.0, 1.0, 1.5, 2.5e-10, -1.5, 3.0e38]),
    }
    for ty, (left, right) in pools.items():
        left = list(left) + gen_vals(rng, ty, 2)
        right = list(right) + gen_vals(rng, ty, 2)
        if ty == "float":
            left = [f32(v) for v in left if not (v == 0 and str(v)[0] != "-")]
            right = [f32(v) for v in right if not (v == 0 and str(v)[0] == "-")]
        left, right = sorted(set(left)), sorted(set(right))
        t = ty[0]
        lines += [".decl xl_%s(a:%s)" % (t, ty), ".input xl_%s" % t, ".decl xr_%s(b:%s)" % (t, ty), ".input xr_%s" % t]
        facts["xl_%s.facts" % t] = "".join(fmt_fact(v, ty) + "\n" for v in left)
        facts["xr_%s.facts" % t] = "".join(fmt_fact(v, ty) + "\n" for v in right)
        for name, (sym, fn) in CROSS_OPS.items():
            rel = "xc_%s_%s" % (t, name)
            lines += [".decl %s(a:%s, b:%s)" % (rel, ty, ty), ".output %s" % rel, "%s(a, b) :- xl_%s(a), xr_%s(b), b %s a." % (rel, t, t, sym)]
            expected[rel] = (ty, {(a, b) for a in left for b in right if fn(b, a)})
        # two bounds of the same direction on one attribute
        for name, (sym, fn) in (("ge2", CROSS_OPS["ge"]), ("le2", CROSS_OPS["le"])):
            rel = "xd_%s_%s" % (t, name)
            lines += [".decl %s(a:%s, c:%s, b:%s)" % (rel, ty, ty, ty), ".output %s" % rel,
                      "%s(a, c, b) :- xl_%s(a), xl_%s(c), xr_%s(b), b %s a, b %s c." % (rel, t, t, t, sym, sym)]
            expected[rel] = (ty, {(a, c, b) for a in left for c in left for b in right if fn(b, a) and fn(b, c)})
    return lines, facts, expected


def judge_cross(expected, outs, label):
    msgs = []
    for rel, (ty, want) in sorted(expected.items()):
        lines = outs.get(rel)
        if lines is None:
            msgs.append("%s: %s: no output" % (label, rel))
            continue
        got = {tuple(parse_val(x, ty) for x in ln.split("\t")) for ln in lines}
        if got != want:
            msgs.append("%s: cross-relation comparison %s: missing %r spurious %r" % (label, rel, sorted(want - got)[:4], sorted(got - want)[:4]))
    return msgs


def run_mode(d, mode, timeout):
    out = os.path.join(d, "out_" + mode)
    os.makedirs(out, exist_ok=True)
    if mode == "interp":
        rr = souffle(["-F", "facts", "-D", out, "p.dl"], cwd=d, timeout=timeout)
    else:
        rr = souffle(["-F", "facts", "-D", out, "-c", "p.dl"], cwd=d, timeout=timeout)
    return rr, read_outputs(out)


def judge_outputs(C, expected, outs, label, st, count):
    msgs = []
    for c in C:
        lines = outs.get("r_" + c["id"])
        if lines is None:
            msgs.append("%s: %s: no output" % (label, c["id"]))
            continue
        exp = expected[c["id"]]
        got = {}
        for ln in lines:
            cols = ln.split("\t")
            try:
                key = tuple(parse_val(x, t) for x, t in zip(cols, c["args"]))
                val = parse_val(cols[len(c["args"])], c["res"]) if c["kind"] == "fn" else True
            except (ValueError, IndexError):
                msgs.append("%s: %s: unparsable line %r" % (label, c["id"], ln))
                continue
            got[key] = val
        for key, r in exp.items():
            if c["kind"] == "cmp":
                if bool(r) != (key in got):
                    msgs.append("%s: constraint %s%r: souffle says %s, reference says %s" % (label, c["id"], key, key in got, bool(r)))
            else:
                g = got.get(key)
                if g is None:
                    msgs.append("%s: %s%r: no result tuple (reference: %r)" % (label, c["id"], key, r))
                elif c["tol"] is not None:
                    if not (g == r or abs(g - r) <= c["tol"] * max(abs(r), 1e-30)):
                        msgs.append("%s: %s%r = %r, reference %r" % (label, c["id"], key, g, r))
                elif g != r:
                    msgs.append("%s: %s%r = %r, reference %r" % (label, c["id"], key, g, r))
            if count and st is not None:
                st.evals += 1
        if len(msgs) > 12:
            break
    return msgs


def run_matrix(seed, per_cell, compiled, st):
    C, text, facts, expected, gstats = build(seed, per_cell)
    case = {"seed": seed, "per_cell": per_cell, "compiled": compiled}
    with Scratch("c24") as d:
        files = {"p.dl": text}
        for k, v in facts.items():
            files[os.path.join("facts", k)] = v
        write_files(d, files)
        rr, outs_i = run_mode(d, "interp", 300)
        if rr.timeout:
            raise Inconclusive("timeout:interpreter")
        if rr.rc != 0:
            raise Violation("interpreter failed on the matrix program (every argument tuple is inside the defined domain): rc=%s\n%s" % (rr.rc, rr.err[-1500:]), {"case": case})
        msgs = judge_outputs(C, expected, outs_i, "interpreter", st, True)
        cross = gstats.pop("__cross__")
        msgs += judge_cross(cross, outs_i, "interpreter")
        if st is not None:
            st.classes["cross_relation_comparison_pairs"] += sum(len(w) for _, w in cross.values())
        if compiled:
            rr, outs_c = run_mode(d, "compiled", 1500)
            if rr.timeout:
                if st is not None:
                    st.inconclusive["timeout:compile"] += 1
            elif rr.rc != 0:
                raise Violation("compiled run of the matrix program failed: rc=%s\n%s" % (rr.rc, (rr.err or rr.out)[-1500:]), {"case": case})
            else:
                msgs += judge_outputs(C, expected, outs_c, "compiled", st, False)
                msgs += judge_cross(cross, outs_c, "compiled")
                # exact agreement of the two back ends, also where the reference is only approximate
                for c in C:
                    a, b = outs_i.get("r_" + c["id"]), outs_c.get("r_" + c["id"])
                    if a is not None and b is not None and sorted(a) != sorted(b):
                        msgs.append("interpreter and compiled disagree on %s: only interpreter %r, only compiled %r" % (
                            c["id"], sorted(set(a) - set(b))[:3], sorted(set(b) - set(a))[:3]))
                if st is not None:
                    st.classes["compiled_runs"] += 1
    if st is not None:
        for c in C:
            n, nb = gstats[c["id"]]
            st.classes["cell:" + c["id"]] += n
            st.extra.setdefault("boundary_tuples", 0)
            st.extra["boundary_tuples"] += nb
            for key in expected[c["id"]]:
                if any(is_boundary(t, v) for t, v in zip(c["args"], key)):
                    st.nontrivial.add(common.h(c["id"] + repr(key)))
        st.discards["out_of_domain_argument_tuples"] += gstats.get("out_of_domain", 0)
        if not st.samples:
            c = C[0]
            st.samples.append({"cell": c["id"], "rule": [l for l in text.split("\n") if l.startswith("r_" + c["id"] + "(")][0],
                               "some_argument_tuples": [list(k) for k in list(expected[c["id"]])[:6]]})
            st.samples.append({"cell": "substr", "some_argument_tuples": [list(k) for k in list(expected["substr"])[:6]]})
    if msgs:
        raise Violation("intrinsic functor / constraint results differ from the documented semantics:\n" + "\n".join(msgs[:14]), {"case": case})


def replay_case(case):
    run_matrix(case["seed"], case["per_cell"], case["compiled"], None)


def replay_file(path):
    case = json.load(open(path))
    try:
        replay_case(case)
    except Violation as v:
        print("VIOLATION property=%s replay=%s" % (PID, path))
        print(v.msg)
        return 1
    except (Discard, Inconclusive) as e:
        print("replay not conclusive: %s" % e)
        return 0
    print("replay passes")
    return 0


def main(tier, seed):
    t0 = time.time()
    st = Stats()
    runs = [(seed * 64 + 1, 60, True), (seed * 64 + 2, 120, False)] if tier == "quick" else \
           [(seed * 64 + i, 400, i < 3) for i in range(1, 9)]
    import concurrent.futures as cf
    results = []
    with cf.ThreadPoolExecutor(max_workers=4) as ex:
        futs = [ex.submit(_one, s, n, comp) for (s, n, comp) in runs]
        for f in futs:
            results.append(f.result())
    for sub, viol in results:
        st.merge(sub)
        for k, v in sub.extra.items():
            pass
        if viol is not None:
            st.violations.append(viol)
    low = [k for k, v in st.classes.items() if k.startswith("cell:") and v < 20]
    if low:
        print("BROKEN: operator cells exercised fewer than 20 times: %s" % ", ".join(low))
        common.write_evidence(PID, tier, seed, "exploration", st, RULE, time.time() - t0, violations=0)
        return 2
    return common.finish(PID, tier, seed, "exploration", st, RULE, t0, replay_fn=replay_case,
                         assumptions=["refops is the documented C-like semantics; argument tuples outside an operator's defined domain are filtered before evaluation",
                                      "ord() is excluded (it exposes internal representation)", "regular expressions are limited to a small tested subset"],
                         nontrivial_floor=500)


def _one(s, n, comp):
    sub = Stats()
    try:
        run_matrix(s, n, comp, sub)
        return sub, None
    except Violation as v:
        return sub, {"case": v.detail.get("case", {"seed": s, "per_cell": n, "compiled": comp}), "msg": v.msg}
    except Inconclusive as e:
        sub.inconclusive[e.why] += 1
        return sub, None
