"""C13 -- static checks reject exactly the ill-formed programs (and accept the well-formed ones) without evaluating."""
import os
from vlib import dlgen, runner, common
from vlib.common import Violation, Discard, Inconclusive, Scratch, souffle, write_files
from vlib.dlgen import Atom, Neg, Cmp, Agg, Var, Wild, RecInit, Fn, Const, Rule, NUMBER, SYMBOL, UNSIGNED, FLOAT
from vlib.pcheck import PCheck

PID = "C13"
RULE = ("Pairs (P, P'): P is a well-formed dlgen program (typed, grounded, stratified by construction; negation, aggregates, records, "
        "recursion, functors); P' is P plus exactly one injected defect that is ill-formed by the language rules: a dependency cycle "
        "through negation (cycle length 1..n: a new rule A(..) :- ..., !B(..) where B already depends on A), a cycle through an aggregate "
        "body or through an aggregate placed in a rule HEAD, an ungrounded variable in a rule head / in a negated atom / in a "
        "comparison / in a functor argument / as an aggregate's target expression, a type clash (symbol constant in a numeric "
        "attribute, one variable used at a symbol and a numeric position, comparison of a number with a string, string functor "
        "applied to a number, number functor applied to a string, ordered comparison < <= > >= between two records), or a "
        "declaration clash (atom with one argument too many / too few, record constructor with the wrong number of fields, atom "
        "of an undeclared relation). Oracle: P => exit 0, no 'Error' "
        "diagnostic, every output file written; P' => exit status 1, >= 1 'Error' diagnostic, the closing 'N errors generated, "
        "evaluation aborted' and NO output file created. Non-trivial = the defect is deep (cycle of length >= 2, defect inside a "
        "recursive stratum, or in a rule that also has an aggregate or negation) or P uses negation and aggregation across >= 3 "
        "strata; distinct by hash of P'.")


def body_rels(lits, acc):
    for l in lits:
        if isinstance(l, Atom):
            acc.add(l.rel)
            for a in l.args:
                term_rels(a, acc)
        elif isinstance(l, Neg):
            acc.add(l.atom.rel)
        elif isinstance(l, Cmp):
            term_rels(l.lhs, acc)
            term_rels(l.rhs, acc)
    return acc


def term_rels(t, acc):
    if isinstance(t, Agg):
        body_rels(t.body, acc)
    elif isinstance(t, (Fn, RecInit)):
        for a in t.args:
            term_rels(a, acc)


def depends(P):
    """rel -> set of relations it (transitively) depends on"""
    direct = {n: set() for n in P.order}
    for r in P.rules:
        direct[r.head.rel] |= body_rels(r.body, set())
    closure = {n: set(direct[n]) for n in P.order}
    changed = True
    while changed:
        changed = False
        for n in P.order:
            add = set()
            for m in closure[n]:
                add |= closure[m]
            if not add <= closure[n]:
                closure[n] |= add
                changed = True
    return closure


def binder_for(P, ch, rel, fresh):
    """a positive body (over an EDB or lower relation of matching types) that binds variables for every attribute of `rel`;
    returns (head args, body literals) or None"""
    args, body = [], []
    for i, ty in enumerate(rel.types):
        cands = [(n, j) for n in P.order for j, t in enumerate(P.rels[n].types)
                 if dlgen.tname(t) == dlgen.tname(ty) and P.rels[n].kind == "edb"]
        if not cands:
            return None
        n, j = ch.choice(cands)
        src = P.rels[n]
        v = Var("%s%d" % (fresh, i), ty)
        body.append(Atom(n, [v if q == j else Wild(t) for q, t in enumerate(src.types)]))
        args.append(v)
    if not body:
        edbs = [n for n in P.order if P.rels[n].kind == "edb"]
        if not edbs:
            return None
        n = ch.choice(edbs)
        body.append(Atom(n, [Wild(t) for t in P.rels[n].types]))
    return args, body


KINDS = ["neg_cycle", "agg_cycle", "agg_cycle_head", "unground_head", "unground_neg", "unground_cmp", "unground_functor", "unground_agg",
         "type_const", "type_var", "type_cmp", "type_functor", "type_order_record", "record_arity", "arity", "undeclared"]


def inject(P, ch):
    """mutates P into P' by adding one ill-formed rule; returns (kind, deep) or None. Kinds are tried in a generated order until one
    is applicable to the chosen relation."""
    idb = [P.rels[n] for n in P.order if P.rels[n].kind == "idb"]
    for kind in ch.shuffle(KINDS):
        for A in ch.sample(idb, 2):
            r = attempt(P, ch, kind, A)
            if r is not None:
                return r
    return None


def attempt(P, ch, kind, A):
    dep = depends(P)
    b = binder_for(P, ch, A, "i")
    if b is None:
        return None
    hargs, body = b
    deep = A.recursive
    if kind in ("neg_cycle", "agg_cycle"):
        cands = [P.rels[n] for n in P.order if n == A.name or A.name in dep[n]]
        B = ch.choice(cands)
        deep = deep or B.name != A.name
        bargs = []
        for ty in B.types:
            same = [v for v in hargs if dlgen.tname(v.ty) == dlgen.tname(ty)]
            bargs.append(ch.choice(same) if same else Const(dlgen.gen_value(ch, ty, dlgen.Feat(), small_only=True), ty))
        if kind == "neg_cycle":
            body.append(Neg(Atom(B.name, bargs)))
        else:
            loc = [Var("il%d" % i, ty) for i, ty in enumerate(B.types)]
            z = Var("iz", NUMBER)
            body.append(Cmp("=", z, Agg("count", None, [Atom(B.name, list(loc))], NUMBER, list(loc)), NUMBER))
            body.append(Cmp(">=", z, Const(0, NUMBER), NUMBER))
    elif kind == "agg_cycle_head":
        # the aggregate sits in the rule head: A(.., count : { B(..) }, ..) :- ... with B depending on A
        idx = [i for i, v in enumerate(hargs) if v.ty == NUMBER]
        if not idx:
            return None
        cands = [P.rels[n] for n in P.order if n == A.name or A.name in dep[n]]
        B = ch.choice(cands)
        deep = deep or B.name != A.name
        loc = [Var("il%d" % i, ty) for i, ty in enumerate(B.types)]
        hargs[ch.choice(idx)] = Agg("count", None, [Atom(B.name, list(loc))], NUMBER, list(loc))
    elif kind == "unground_agg":
        lows = [P.rels[n] for n in P.order if P.rels[n].kind == "edb"]
        if not lows:
            return None
        L = ch.choice(lows)
        z = Var("iz", NUMBER)
        body.append(Cmp("=", z, Agg(ch.choice(["sum", "min", "max"]), Var("iu", NUMBER), [Atom(L.name, [Wild(t) for t in L.types])], NUMBER, []), NUMBER))
        body.append(Cmp(">=", z, Const(0, NUMBER), NUMBER))
    elif kind in ("type_order_record", "record_arity"):
        recs = [(n, j) for n in P.order for j, t in enumerate(P.rels[n].types)
                if isinstance(t, dlgen.RecT) and not isinstance(t, dlgen.AdtT) and P.rels[n].kind == "edb"]
        if not recs:
            # no record-typed input attribute in P: declare one (well-formed on its own) for the injected rule to use
            rt = dlgen.RecT("IRec", [NUMBER, SYMBOL])
            P.rectypes.append(rt)
            er = dlgen.Rel("irec", [NUMBER, rt], "edb")
            er.facts = [(1, (2, "a")), (2, (3, "b"))]
            P.add_rel(er)
            recs = [("irec", 1)]
        n, j = ch.choice(recs)
        ty = P.rels[n].types[j]
        v, w = Var("it", ty), Var("iw", ty)
        body.append(Atom(n, [v if q == j else Wild(t) for q, t in enumerate(P.rels[n].types)]))
        if kind == "type_order_record":
            # records are only comparable with = and !=
            body.append(Atom(n, [w if q == j else Wild(t) for q, t in enumerate(P.rels[n].types)]))
            body.append(Cmp(ch.choice(["<", "<=", ">", ">="]), v, w, ty))
        else:
            flds = [Wild(t) for t in ty.fields]
            flds = flds + [Wild(NUMBER)] if ch.bool(0.5) or len(flds) < 2 else flds[:-1]
            body.append(Cmp("=", v, RecInit(flds, ty), ty))
    elif kind == "arity":
        lows = [P.rels[n] for n in P.order if P.rels[n].kind == "edb"]
        if not lows:
            return None
        L = ch.choice(lows)
        args = [Wild(t) for t in L.types]
        body.append(Atom(L.name, args + [Wild(NUMBER)] if ch.bool(0.5) or len(args) < 2 else args[:-1]))
    elif kind == "undeclared":
        body.append(Atom("undeclared_rel", [Wild(NUMBER)]))
    elif kind == "unground_head":
        idx = [i for i, v in enumerate(hargs) if not isinstance(v.ty, dlgen.RecT)]
        if not idx:
            return None
        i = ch.choice(idx)
        hargs[i] = Var("iu", hargs[i].ty)
    elif kind == "unground_neg":
        lows = [P.rels[n] for n in P.order if P.rels[n].kind == "edb" and len(P.rels[n].types) > 0]
        if not lows:
            return None
        L = ch.choice(lows)
        body.append(Neg(Atom(L.name, [Var("iu%d" % i, t) for i, t in enumerate(L.types)])))
    elif kind == "unground_cmp":
        ty = ch.choice([NUMBER, SYMBOL])
        body.append(Cmp(ch.choice(["<", "!=", ">="]), Var("iu", ty), Const(dlgen.gen_value(ch, ty, dlgen.Feat(), small_only=True), ty), ty))
    elif kind == "unground_functor":
        body.append(Cmp("<", Const(3, NUMBER), Fn("+", [Var("iu", NUMBER), Const(1, NUMBER)], NUMBER), NUMBER))
    elif kind == "type_const":
        idx = [i for i, v in enumerate(hargs) if v.ty in (NUMBER, UNSIGNED, FLOAT)]
        if not idx:
            return None
        i = ch.choice(idx)
        hargs[i] = Const("a", SYMBOL)
    elif kind == "type_var":
        syms = [(n, j) for n in P.order for j, t in enumerate(P.rels[n].types) if t == SYMBOL and P.rels[n].kind == "edb"]
        nums = [(n, j) for n in P.order for j, t in enumerate(P.rels[n].types) if t in (NUMBER, UNSIGNED, FLOAT) and P.rels[n].kind == "edb"]
        if not syms or not nums:
            return None
        v = Var("it", NUMBER)
        for (n, j) in (ch.choice(syms), ch.choice(nums)):
            body.append(Atom(n, [v if q == j else Wild(t) for q, t in enumerate(P.rels[n].types)]))
    elif kind == "type_cmp":
        nums = [(n, j) for n in P.order for j, t in enumerate(P.rels[n].types) if t in (NUMBER, UNSIGNED, FLOAT) and P.rels[n].kind == "edb"]
        if not nums:
            return None
        n, j = ch.choice(nums)
        v = Var("it", P.rels[n].types[j])
        body.append(Atom(n, [v if q == j else Wild(t) for q, t in enumerate(P.rels[n].types)]))
        body.append(Cmp(ch.choice(["<", "=", "!="]), v, Const("a", SYMBOL), SYMBOL))
    elif kind == "type_functor":
        nums = [(n, j) for n in P.order for j, t in enumerate(P.rels[n].types) if t in (NUMBER, UNSIGNED, FLOAT) and P.rels[n].kind == "edb"]
        syms = [(n, j) for n in P.order for j, t in enumerate(P.rels[n].types) if t == SYMBOL and P.rels[n].kind == "edb"]
        if nums and (not syms or ch.bool(0.5)):
            n, j = ch.choice(nums)
            v = Var("it", P.rels[n].types[j])
            body.append(Atom(n, [v if q == j else Wild(t) for q, t in enumerate(P.rels[n].types)]))
            body.append(Cmp("!=", Fn("cat", [v, Const("a", SYMBOL)], SYMBOL), Const("b", SYMBOL), SYMBOL))
        elif syms:
            n, j = ch.choice(syms)
            v = Var("it", SYMBOL)
            body.append(Atom(n, [v if q == j else Wild(t) for q, t in enumerate(P.rels[n].types)]))
            body.append(Cmp("!=", Fn("+", [v, Const(1, NUMBER)], NUMBER), Const(7, NUMBER), NUMBER))
        else:
            return None
    P.rules.append(Rule(Atom(A.name, hargs), body))
    has_extra = any(isinstance(l, Neg) or (isinstance(l, Cmp) and isinstance(l.rhs, Agg)) for l in body)
    return kind, bool(deep or (has_extra and kind.startswith("unground")))


def gen(ch):
    P = dlgen.generate(ch, dlgen.Feat())
    good, facts = dlgen.to_souffle(P)
    strata_feats = sum(1 for g in P.groups if any(
        any(isinstance(l, Neg) or (isinstance(l, Cmp) and (isinstance(l.rhs, Agg) or isinstance(l.lhs, Agg))) for l in r.body)
        for r in P.rules if r.head.rel in g))
    res = inject(P, ch)
    if res is None:
        return {"good": good, "facts": facts, "bad": None, "kind": None, "deep": False, "strata_feats": strata_feats}
    bad = dlgen.to_souffle(P)[0]
    return {"good": good, "facts": facts, "bad": bad, "kind": res[0], "deep": res[1], "strata_feats": strata_feats}


def run_fe(text, facts):
    with Scratch("c13") as d:
        files = {"p.dl": text}
        for k, v in facts.items():
            files[os.path.join("facts", k)] = v
        write_files(d, files)
        os.makedirs(os.path.join(d, "facts"), exist_ok=True)
        os.makedirs(os.path.join(d, "out"), exist_ok=True)
        rr = souffle(["-F", "facts", "-D", "out", "p.dl"], cwd=d, timeout=30)
        return rr, sorted(os.listdir(os.path.join(d, "out")))


def judge(case, st=None):
    rr, outs = run_fe(case["good"], case["facts"])
    if rr.timeout:
        raise Inconclusive("timeout:good")
    nout = case["good"].count(".output ")
    if rr.rc != 0 or "Error" in rr.err:
        raise Violation("a well-formed program was rejected / failed: rc=%s\n%s" % (rr.rc, rr.err[-1500:]), {"case": case})
    if len(outs) != nout:
        raise Violation("well-formed program: %d output files written, %d output relations" % (len(outs), nout), {"case": case})
    if case["bad"] is None:
        if st is not None:
            st.classes["no_injection_possible"] += 1
        return
    rr, outs = run_fe(case["bad"], case["facts"])
    if rr.timeout:
        raise Inconclusive("timeout:bad")
    msgs = []
    if rr.rc != 1:
        msgs.append("exit status %s (expected 1)" % rr.rc)
    if "Error" not in rr.err:
        msgs.append("no Error diagnostic on stderr")
    if "generated, evaluation aborted" not in rr.err:
        msgs.append("no 'errors generated, evaluation aborted' line")
    if outs:
        msgs.append("output files were written although the program is ill-formed: %r" % outs[:4])
    if msgs:
        raise Violation("ill-formed program (%s) was not rejected cleanly: %s\nstderr: %s" % (case["kind"], "; ".join(msgs), rr.err[-1200:]),
                        {"case": case})
    if st is not None:
        st.classes["defect:" + case["kind"]] += 1
        cls = ("stratification" if "cycle" in case["kind"] else "ungrounded" if "unground" in case["kind"] else
               "declaration" if case["kind"] in ("arity", "undeclared", "record_arity") else "type")
        want = {"stratification": ["stratif", "cyclic", "Unable to stratify"], "ungrounded": ["ngrounded"],
                "declaration": ["arity", "Undefined relation", "number of arguments"],
                "type": ["type", "Type", "functor", "overload", "constant"]}[cls]
        if any(w in rr.err for w in want):
            st.classes["diagnostic_matches_class:" + cls] += 1
        if case["deep"] or case["strata_feats"] >= 3:
            st.nontrivial.add(common.h(case["bad"]))
            if len(st.samples) < 3 and not any(s.get("kind") == case["kind"] for s in st.samples):
                st.samples.append({"kind": case["kind"], "ill_formed_program": case["bad"], "diagnostics": rr.err[:600]})
        else:
            st.classes["shallow"] += 1


CHECK = PCheck(PID, RULE, gen, judge, quick=1500, thorough=40000, floor=80,
               assumptions=["defect kinds whose status depends on documented leniency (unused variables, subtype coercions) are not injected",
                            "the diagnostic text is only classified, never asserted"])
main, replay_file = CHECK.main, CHECK.replay_file
