#!/bin/sh
# Offline setup: build souffle from /repo's working tree with the hook guard on, then the C++ harnesses.
set -e
cd "$(dirname "$0")"
python3-vt -c "import sys; sys.path.insert(0,'.'); from vlib import common; common.ensure_build(quiet=False)"
if [ -x harness/build.sh ]; then harness/build.sh; fi
